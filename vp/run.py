"""CLI: python -m vp.run <ID> <quick|thorough>  |  <ID> --replay <file>

Exit codes: 0 held / 1 VIOLATION / 2 harness error.
"""
from __future__ import annotations

import collections
import concurrent.futures as cf
import glob
import importlib
import json
import multiprocessing as mp
import os
import sys
import time
import traceback

ROOT = os.path.dirname(os.path.dirname(os.path.abspath(__file__)))


def _sanitize(x):
    """JSON without NaN/Infinity tokens (evidence must be strict JSON)."""
    if isinstance(x, float):
        if x != x:
            return "NaN"
        if x in (float("inf"), float("-inf")):
            return "Infinity" if x > 0 else "-Infinity"
        return x
    if isinstance(x, dict):
        return {str(k): _sanitize(v) for k, v in x.items()}
    if isinstance(x, (list, tuple)):
        return [_sanitize(v) for v in x]
    return x


def _die(msg, code=2):
    print(f"HARNESS-ERROR: {msg}", flush=True)
    sys.exit(code)


def _load(prop):
    import pyoma2

    src = os.path.realpath(os.path.dirname(pyoma2.__file__))
    want = os.path.realpath(os.environ.get("VERIF_REPO_SRC", "/repo/src"))
    if not src.startswith(want):
        _die(f"pyoma2 imported from {src}, not from {want}")
    try:
        return importlib.import_module(f"vp.checks.{prop.lower()}")
    except ModuleNotFoundError as e:
        _die(f"no check module for {prop}: {e}")


def _known_entries(prop):
    path = os.path.join(ROOT, "known_findings.json")
    if not os.path.exists(path):
        return []
    with open(path) as f:
        data = json.load(f)
    return [e for e in data.get("findings", []) if e.get("property") == prop]


def _match_known(mod, entries, subname, label, case, msg):
    """Return the open known-finding entry that covers this failure, or None."""
    preds = getattr(mod, "KNOWN", {})
    for e in entries:
        if not str(e.get("status", "")).startswith("open"):
            continue
        if e.get("subcheck") not in (None, subname):
            continue
        if e.get("label") not in (None, label):
            continue
        p = preds.get(e.get("match"))
        if p is None:
            continue
        try:
            if p(case, label, msg):
                return e
        except Exception:  # noqa: BLE001
            continue
    return None


def _worker(args):
    prop, subname, tier, seed, shard, nshards = args
    from vp import core

    try:
        # tqdm keeps one class-level multiprocessing lock; once the parent has touched it (regression replays run there)
        # every forked worker would contend for it on each progress-bar call inside the library
        import threading

        import tqdm.std as _tq

        _tq.tqdm.set_lock(threading.RLock())
    except Exception:  # noqa: BLE001
        pass

    mod = importlib.import_module(f"vp.checks.{prop.lower()}")
    sub = {s.name: s for s in mod.SUBS}[subname]
    entries = _known_entries(prop)

    def matcher(sname, label, case, msg):
        e = _match_known(mod, entries, sname, label, case, msg)
        return e["id"] if e else None

    try:
        if sub.enum is not None:
            st = core.drive_enumerated(sub, tier, shard, nshards, matcher)
        else:
            n = sub.budget(tier)
            per = max(1, -(-n // nshards))
            sv = core.derive_seed(seed, prop, subname, shard)
            st = core.drive_generated(sub, per, sv, matcher)
        return st.to_dict()
    except BaseException as e:  # noqa: BLE001 - reported as harness error
        st = core.Stats(subname)
        st.harness_error = "".join(traceback.format_exception(type(e), e, e.__traceback__))[-3000:]
        return st.to_dict()


def _merge(dicts):
    out = {}
    for d in dicts:
        m = out.setdefault(
            d["sub"],
            {
                "evaluations": 0,
                "nchecks": 0,
                "nontriv": set(),
                "tags": collections.Counter(),
                "skips": collections.Counter(),
                "samples": [],
                "failures": {},
                "nfail": 0,
                "known_hits": collections.Counter(),
                "wall": 0.0,
                "exhaustive": None,
                "harness_error": None,
            },
        )
        m["evaluations"] += d["evaluations"]
        m["nchecks"] += d["nchecks"]
        m["nontriv"].update(d["nontriv"])
        m["tags"].update(d["tags"])
        m["skips"].update(d["skips"])
        for s in d["samples"]:
            if len(m["samples"]) < 3:
                m["samples"].append(s)
        for lab, lst in d["failures"].items():
            cur = m["failures"].setdefault(lab, [])
            cur.extend(lst)
            cur.sort(key=lambda e: e["size"])
            del cur[3:]
        m["nfail"] += d["nfail"]
        m["known_hits"].update(d.get("known_hits", {}))
        m["wall"] = max(m["wall"], d["wall"])
        if d["exhaustive"] is not None:
            m["exhaustive"] = d["exhaustive"] if m["exhaustive"] is None else (m["exhaustive"] and d["exhaustive"])
        if d["harness_error"]:
            m["harness_error"] = d["harness_error"]
    return out


def _write_replay(prop, subname, case, msg, label):
    from vp import core

    d = os.path.join(ROOT, "replay", "out", prop)
    os.makedirs(d, exist_ok=True)
    path = os.path.join(d, f"{subname}-{core.digest(case)}.json")
    with open(path, "w") as f:
        json.dump(
            {"property": prop, "subcheck": subname, "label": label, "explanation": msg, "case": case},
            f,
            allow_nan=True,
        )
    return os.path.relpath(path, ROOT)


def _replay_file(mod, path):
    from vp import core

    with open(path) as f:
        rec = json.load(f)
    sub = {s.name: s for s in mod.SUBS}.get(rec["subcheck"])
    if sub is None:
        _die(f"replay file names unknown sub-check {rec['subcheck']}")
    j = sub.judge(rec["case"])
    return rec, sub, j


def main(argv):
    if len(argv) < 1:
        _die("usage: check <ID> <quick|thorough> | <ID> --replay <file>")
    prop = argv[0].upper()
    mod = _load(prop)
    from vp import core

    entries = _known_entries(prop)

    # ------------------------------------------------------------ replay mode
    if len(argv) >= 3 and argv[1] == "--replay":
        path = argv[2]
        if not os.path.isabs(path):
            path = os.path.join(ROOT, path)
        try:
            rec, sub, j = _replay_file(mod, path)
        except SystemExit:
            raise
        except BaseException as e:  # noqa: BLE001
            traceback.print_exc()
            _die(f"replay failed in the harness: {e}")
        print(f"replay {prop}/{sub.name}: {j.explain()}")
        if j.ok:
            sys.exit(0)
        known = None
        for lab, msg in j.fails:
            known = known or _match_known(mod, entries, sub.name, lab, rec["case"], msg)
        if known:
            print(f"KNOWN-FINDING: property={prop} {known['what']}")
            sys.exit(0)
        print(f"VIOLATION property={prop} replay={os.path.relpath(path, ROOT)}")
        sys.exit(1)

    tier = argv[1] if len(argv) >= 2 else os.environ.get("VERIF_TIER", "quick")
    if tier not in ("quick", "thorough"):
        _die(f"unknown tier {tier!r}")
    try:
        seed = int(os.environ.get("VERIF_SEED", "0"))
    except ValueError:
        seed = core.derive_seed(os.environ.get("VERIF_SEED"))
    t0 = time.time()

    violations = []  # (subname, label, msg, case)
    known_hit = collections.Counter()
    harness_errors = []

    # ------------------------------------------------------- regression tier
    nreg = 0
    for path in sorted(glob.glob(os.path.join(ROOT, "replay", "regress", prop, "*.json"))):
        try:
            rec, sub, j = _replay_file(mod, path)
        except SystemExit:
            raise
        except BaseException as e:  # noqa: BLE001
            harness_errors.append(f"regression {path}: {traceback.format_exc()[-1500:]}")
            continue
        nreg += 1
        if not j.ok:
            lab, msg = j.fails[0]
            k = _match_known(mod, entries, sub.name, lab, rec["case"], msg)
            if k:
                known_hit[k["id"]] += 1
            else:
                violations.append((sub.name, lab, msg, rec["case"], os.path.relpath(path, ROOT)))

    # ------------------------------------------------------------ main search
    subs = [s for s in mod.SUBS if tier in s.tiers]
    tasks = []
    for s in subs:
        ns = s.shards(tier)
        for sh in range(ns):
            tasks.append((prop, s.name, tier, seed, sh, ns))
    nproc = int(os.environ.get("VERIF_JOBS", str(min(16, os.cpu_count() or 1))))
    results = []
    if nproc <= 1 or len(tasks) == 1:
        results = [_worker(t) for t in tasks]
    else:
        ctx = mp.get_context("fork")
        with cf.ProcessPoolExecutor(max_workers=nproc, mp_context=ctx) as ex:
            results = list(ex.map(_worker, tasks))
    merged = _merge(results)

    excluded_known = 0
    for s in subs:
        m = merged.get(s.name)
        if m is None:
            continue
        if m["harness_error"]:
            harness_errors.append(f"{s.name}: {m['harness_error']}")
        known_hit.update(m["known_hits"])
        excluded_known += sum(m["known_hits"].values())
        for lab, lst in m["failures"].items():
            unknown = list(lst)
            if unknown:
                e = unknown[0]
                case, msg = e["case"], e["msg"]
                if tier == "thorough" and s.strategy is not None:
                    sc, smsg = core.shrink_failure(s, lab, core.derive_seed(seed, prop, s.name, "shrink"))
                    if sc is not None and len(core.canon(sc)) < len(core.canon(case)):
                        if not _match_known(mod, entries, s.name, lab, sc, smsg or ""):
                            case, msg = sc, smsg or msg
                violations.append((s.name, lab, msg, case, None))

    # known findings: replay each open witness, print the line while it still fails
    for e in entries:
        if not str(e.get("status", "")).startswith("open"):
            continue
        w = e.get("witness")
        still = None
        if w:
            try:
                rec, sub, j = _replay_file(mod, os.path.join(ROOT, w))
                still = not j.ok
            except BaseException:  # noqa: BLE001
                harness_errors.append(f"known-finding witness {w}: {traceback.format_exc()[-1500:]}")
        if still or (still is None and known_hit.get(e["id"])):
            print(f"KNOWN-FINDING: property={prop} {e['what']}")
        elif still is False:
            print(f"note: known finding {e['id']} no longer reproduces on this tree")

    # ---------------------------------------------------------------- report
    wall = time.time() - t0
    total_eval = sum(m["evaluations"] for m in merged.values()) + nreg
    nontriv = sum(len(m["nontriv"]) for m in merged.values())
    samples = []
    subcov = {}
    for s in subs:
        m = merged.get(s.name)
        if not m:
            continue
        for smp in m["samples"][:2]:
            samples.append({"subcheck": s.name, "case": smp})
        subcov[s.name] = {
            "evaluations": m["evaluations"],
            "distinct_nontrivial": len(m["nontriv"]),
            "oracle_checks": m["nchecks"],
            "classes": dict(m["tags"].most_common(40)),
            "not_judged": dict(m["skips"].most_common(40)),
            "failing_cases": m["nfail"],
            "exhaustive": m["exhaustive"],
            "rule": s.rule,
            "wall_s": round(m["wall"], 2),
        }
        print(
            f"  {prop}/{s.name}: {m['evaluations']} cases, {len(m['nontriv'])} distinct non-trivial, "
            f"{m['nchecks']} oracle checks, {m['nfail']} failing, {m['wall']:.1f}s"
            + (" [exhaustive]" if m["exhaustive"] else "")
        )
    all_exh = [v["exhaustive"] for v in subcov.values()]
    evidence = {
        "property_id": prop,
        "tier": tier,
        "seed": seed,
        "level": "exploration",
        "coverage": {
            "evaluations": int(total_eval),
            "distinct_nontrivial": int(nontriv),
            "rule": getattr(mod, "RULE", "") or "see coverage.subchecks[*].rule",
            "samples": samples or [{"note": "no non-trivial sample"}],
            "exhaustive": bool(all_exh) and all(x is True for x in all_exh),
            "subchecks": subcov,
            "regression_replays": nreg,
            "excluded_known": excluded_known,
            "known_findings_hit": dict(known_hit),
        },
        "assumptions": list(getattr(mod, "ASSUMPTIONS", [])),
        "wall_s": round(wall, 2),
        "violations": len(violations),
    }
    os.makedirs(os.path.join(ROOT, "evidence"), exist_ok=True)
    with open(os.path.join(ROOT, "evidence", f"{prop}.json"), "w") as f:
        json.dump(_sanitize(evidence), f, indent=1, allow_nan=False, default=str)

    if harness_errors:
        for h in harness_errors:
            print("HARNESS-ERROR:", h)
        sys.exit(2)
    if violations:
        for subname, lab, msg, case, path in violations:
            if path is None:
                path = _write_replay(prop, subname, case, msg, lab)
            print(f"  {prop}/{subname} [{lab}] {msg}")
            print(f"VIOLATION property={prop} replay={path}")
        sys.exit(1)
    print(f"OK property={prop} tier={tier} seed={seed} cases={total_eval} nontrivial={nontriv} wall={wall:.1f}s")
    sys.exit(0)


if __name__ == "__main__":
    main(sys.argv[1:])
