"""Head-less driver for pyoma2.support.sel_from_plot.SelFromPlot.

tkinter's Tk / Menu and the Tk canvas / toolbar are replaced by stubs; the figure gets a real
FigureCanvasAgg, so genuine matplotlib MouseEvent / KeyEvent objects can be dispatched through
``fig.canvas.callbacks.process``.  The stub's ``mainloop()`` plays a script (a callable receiving
the dialog instance), after which the dialog closes exactly as when the user closes the window.
"""
from __future__ import annotations

import contextlib
import types

from matplotlib.backend_bases import KeyEvent, MouseEvent
from matplotlib.backends.backend_agg import FigureCanvasAgg

import pyoma2.support.sel_from_plot as sfp

_STATE = {"script": None, "inst": None, "fast": False}


class _Widget:
    def pack(self, *a, **k):
        pass


class FakeTk:
    def __init__(self, *a, **k):
        self._close = None

    def title(self, *a, **k):
        pass

    def config(self, *a, **k):
        pass

    def protocol(self, name, fn):
        self._close = fn

    def mainloop(self):
        script = _STATE["script"]
        if script is not None:
            script(_STATE["inst"])
        if self._close is not None:
            self._close()  # WM_DELETE_WINDOW

    def quit(self):
        pass

    def destroy(self):
        pass


class FakeMenu:
    def __init__(self, *a, **k):
        pass

    def add_command(self, *a, **k):
        pass

    def add_cascade(self, *a, **k):
        pass


class FakeCanvasTk:
    def __init__(self, fig, master=None):
        self.canvas = FigureCanvasAgg(fig)
        if _STATE["fast"]:
            # rendering is not part of what is checked: skip the (expensive) redraw after every action
            self.canvas.draw_idle = lambda *a, **k: None

    def get_tk_widget(self):
        return _Widget()


class FakeToolbar:
    def __init__(self, *a, **k):
        pass


@contextlib.contextmanager
def patched(script, fast=False):
    """context in which SelFromPlot(...) runs head-less and plays ``script(dialog)`` in its main loop"""
    import matplotlib.pyplot as plt

    saved_tl = plt.tight_layout
    plt.tight_layout = lambda *a, **k: None  # stab_plot calls pyplot.tight_layout() on the *current pyplot* figure
    _STATE["fast"] = fast
    saved = (sfp.tk.Tk, sfp.tk.Menu, sfp.FigureCanvasTkAgg, sfp.NavigationToolbar2Tk, sfp.SelFromPlot._initialize_gui)
    orig_init = sfp.SelFromPlot._initialize_gui

    def init_gui(self):
        _STATE["inst"] = self
        return orig_init(self)

    _STATE["script"] = script
    sfp.tk.Tk, sfp.tk.Menu = FakeTk, FakeMenu
    sfp.FigureCanvasTkAgg, sfp.NavigationToolbar2Tk = FakeCanvasTk, FakeToolbar
    sfp.SelFromPlot._initialize_gui = init_gui
    try:
        yield
    finally:
        sfp.tk.Tk, sfp.tk.Menu, sfp.FigureCanvasTkAgg, sfp.NavigationToolbar2Tk, sfp.SelFromPlot._initialize_gui = saved
        _STATE["script"] = None
        _STATE["inst"] = None
        _STATE["fast"] = False
        plt.tight_layout = saved_tl


# ---------------------------------------------------------------------------
# event helpers
# ---------------------------------------------------------------------------
def key(dlg, name, down=True):
    canvas = dlg.fig.canvas
    ev = KeyEvent("key_press_event" if down else "key_release_event", canvas, name)
    canvas.callbacks.process(ev.name, ev)


def click(dlg, xdata, ydata, button):
    """a genuine MouseEvent at data coordinates (the figure is drawn first so that transforms are current)"""
    canvas = dlg.fig.canvas
    canvas.draw()
    x, y = dlg.ax2.transData.transform((xdata, ydata))
    ev = MouseEvent("button_press_event", canvas, x, y, button=button)
    canvas.callbacks.process("button_press_event", ev)
    return ev


def direct_click(dlg, xdata, ydata, button):
    """call the handler directly with a minimal event object (fast path for enumerations)"""
    ev = types.SimpleNamespace(button=button, xdata=xdata, ydata=ydata)
    if dlg.plot == "FDD":
        dlg.on_click_FDD(ev)
    else:
        dlg.on_click_SSI(ev, dlg.plot)


def direct_key(dlg, name, down=True):
    ev = types.SimpleNamespace(key=name)
    (dlg.on_key_press if down else dlg.on_key_release)(ev)
