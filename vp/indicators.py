"""Harness's own implementations of the mode-shape indicators (library definitions)."""
from __future__ import annotations

import numpy as np


def mpc(phi):
    """Modal phase collinearity from the mean-removed real/imaginary scatter (library definition)."""
    phi = np.asarray(phi, dtype=complex)
    re = phi.real - phi.real.mean()
    im = phi.imag - phi.imag.mean()
    a, b, c = re @ re, re @ im, im @ im
    den = (a + c) ** 2
    if den == 0 or not np.isfinite(den):
        return float("nan")
    return float(((a - c) ** 2 + 4 * b * b) / den)


def mpd(phi):
    """Mean phase deviation: weighted mean angle between each component and the principal
    direction of the (Re, Im) scatter (no mean removal), weights |phi_o|."""
    phi = np.asarray(phi, dtype=complex)
    re, im = phi.real, phi.imag
    M = np.array([[re @ re, re @ im], [re @ im, im @ im]])
    if not np.all(np.isfinite(M)):
        return float("nan")
    w, V = np.linalg.eigh(M)
    p = V[:, 1]  # principal direction
    par = np.abs(re * p[0] + im * p[1])
    perp = np.abs(-re * p[1] + im * p[0])
    ang = np.arctan2(perp, par)
    wt = np.abs(phi)
    s = wt.sum()
    if s == 0:
        return float("nan")
    return float((wt * ang).sum() / s)


def mpd_anisotropy(phi):
    """(l1 - l2)/l1 of the scatter matrix: near 0 the principal direction (hence MPD) is ill defined"""
    phi = np.asarray(phi, dtype=complex)
    re, im = phi.real, phi.imag
    M = np.array([[re @ re, re @ im], [re @ im, im @ im]])
    w = np.linalg.eigvalsh(M)
    return float((w[1] - w[0]) / max(w[1], 1e-300))
