"""Shared generators and builders for modal systems (truth models).

A system case is JSON:
  {"fs": fs, "fr": [fn_k/fs ...], "xi": [...], "phi": [[[re,im] per channel] per mode]}
"""
from __future__ import annotations

import math

import numpy as np
from hypothesis import strategies as st

from .core import rng_of


# ---------------------------------------------------------------------------
# strategies
# ---------------------------------------------------------------------------
@st.composite
def fs_strategy(draw):
    return draw(st.one_of(st.sampled_from([1.0, 10.0, 100.0, 200.0, 1000.0]), st.floats(0, 3).map(lambda e: round(10.0**e, 6))))


@st.composite
def freq_fractions(draw, m, lo=0.01, hi=0.45, min_gap=None):
    """m distinct sorted fractions of fs in (lo, hi) with a minimum relative gap."""
    if min_gap is None:
        min_gap = draw(st.sampled_from([0.3, 0.1, 0.03, 0.01]))
    # construct rather than reject: geometric-ish spacing from drawn increments
    f = []
    x = draw(st.floats(lo, lo + (hi - lo) / (m + 0.5)))
    for k in range(m):
        f.append(x)
        room = (hi - x) / (m - k) if k < m - 1 else 0.0
        step = x * min_gap + draw(st.floats(0, 1)) * max(room - x * min_gap, 0.0)
        x = x + max(step, x * min_gap)
    if f[-1] >= hi:  # compress (keeps ordering and relative gaps >= min_gap*(scale))
        sc = (hi * 0.999) / f[-1]
        f = [v * sc for v in f]
    return [float(v) for v in f]


@st.composite
def shape_entries(draw, n, complex_shapes):
    ent = st.floats(-1, 1, allow_nan=False, allow_subnormal=False, width=64).map(lambda x: 0.0 if abs(x) < 1e-6 else x)
    re = draw(st.lists(ent, min_size=n, max_size=n))
    if complex_shapes:
        im = draw(st.lists(ent, min_size=n, max_size=n))
    else:
        im = [0.0] * n
    if max(abs(a) + abs(b) for a, b in zip(re, im)) < 0.2:
        re[draw(st.integers(0, n - 1))] = 1.0
    return [[float(a), float(b)] for a, b in zip(re, im)]


@st.composite
def system(draw, m_min=1, m_max=6, nch_min=2, nch_max=8, xi_lo=0.002, xi_hi=0.08, allow_complex=True,
           fr_lo=0.01, fr_hi=0.45, fs=None):
    m = draw(st.integers(m_min, m_max))
    nch = draw(st.integers(nch_min, nch_max))
    cplx = allow_complex and draw(st.booleans())
    return {
        "fs": draw(fs_strategy()) if fs is None else fs,
        "fr": draw(freq_fractions(m, fr_lo, fr_hi)),
        "xi": [draw(st.floats(xi_lo, xi_hi)) for _ in range(m)],
        "phi": [draw(shape_entries(nch, cplx)) for _ in range(m)],
        "complex": cplx,
    }


# ---------------------------------------------------------------------------
# builders
# ---------------------------------------------------------------------------
class Sys:
    def __init__(self, case, channels=None):
        self.fs = float(case["fs"])
        self.dt = 1.0 / self.fs
        self.fn = np.asarray(case["fr"], dtype=float) * self.fs
        self.xi = np.asarray(case["xi"], dtype=float)
        phi = np.asarray(case["phi"], dtype=float)  # (m, nch, 2)
        self.Phi = (phi[..., 0] + 1j * phi[..., 1]).T  # (nch, m)
        if channels is not None:
            self.Phi = self.Phi[channels, :]
        self.m = len(self.fn)
        self.nch = self.Phi.shape[0]
        om = 2 * np.pi * self.fn
        self.lam = -self.xi * om + 1j * om * np.sqrt(1 - self.xi**2)  # continuous poles (upper half)
        self.mu = np.exp(self.lam * self.dt)  # discrete poles

    # -- modal coordinates -------------------------------------------------
    def free_decay(self, amps, N, channels=None):
        """y[t, ch] = 2 Re( sum_k Phi[ch,k] a_k mu_k^t ), t = 0..N-1  -> (N, nch)"""
        a = np.asarray(amps, dtype=complex)
        t = np.arange(N)
        P = self.Phi if channels is None else self.Phi[channels, :]
        # mu^t via exp(t*log mu) to avoid accumulation
        Z = np.exp(np.outer(t, self.lam * self.dt)) * a[None, :]  # (N, m)
        return 2.0 * np.real(Z @ P.T)

    def state_space(self, channels=None):
        """real (A, C) with A block diagonal (2m x 2m), C (nch x 2m): y_t = C A^t x0"""
        P = self.Phi if channels is None else self.Phi[channels, :]
        A = np.zeros((2 * self.m, 2 * self.m))
        C = np.zeros((P.shape[0], 2 * self.m))
        for k, mu in enumerate(self.mu):
            # x = [Re z, Im z] with z_{t+1} = mu z_t ; y = 2 Re(phi z) = 2(Re phi Re z - Im phi Im z)
            C[:, 2 * k] = 2 * P[:, k].real
            C[:, 2 * k + 1] = -2 * P[:, k].imag
        # A acts on [Re z; Im z]: Re(mu z) = mur*zr - mui*zi ; Im = mui*zr + mur*zi
        for k, mu in enumerate(self.mu):
            A[2 * k : 2 * k + 2, 2 * k : 2 * k + 2] = [[mu.real, -mu.imag], [mu.imag, mu.real]]
        return A, C

    def observability(self, nblocks, channels=None, T=None):
        A, C = self.state_space(channels)
        if T is not None:
            Ti = np.linalg.inv(T)
            A, C = T @ A @ Ti, C @ Ti
        blocks = []
        M = np.eye(A.shape[0])
        for _ in range(nblocks):
            blocks.append(C @ M)
            M = M @ A
        return np.vstack(blocks), A, C


def match_modes(fn_true, xi_true, Phi_true, fn, xi, Phi, conj_pairs=True):
    """Match identified poles (arrays over poles; Phi (npoles, nch)) to the true modes.
    Returns list of (k, idxs) where idxs are indices of identified poles nearest to mode k
    in the (fn, xi) plane."""
    out = []
    fn = np.asarray(fn)
    xi = np.asarray(xi)
    for k in range(len(fn_true)):
        d = np.abs(fn - fn_true[k]) / fn_true[k] + np.abs(xi - xi_true[k])
        d = np.where(np.isfinite(d), d, np.inf)
        order = np.argsort(d)
        out.append((k, order))
    return out


def random_orthogonal(n, k):
    rng = rng_of(k)
    Q, R = np.linalg.qr(rng.normal(size=(n, n)))
    return Q * np.sign(np.diag(R))


def random_response(sysobj: Sys, N, seed, noise=0.01, channels=None):
    """Random response: each mode is an AR(2)-like complex resonator driven by white noise."""
    rng = rng_of(seed)
    P = sysobj.Phi if channels is None else sysobj.Phi[channels, :]
    from scipy.signal import lfilter

    Y = np.zeros((N, P.shape[0]))
    for k in range(sysobj.m):
        e = rng.normal(size=N) + 1j * rng.normal(size=N)
        z = lfilter([1.0], [1.0, -sysobj.mu[k]], e)
        z = z / (np.std(z.real) + 1e-300)
        Y += 2 * np.real(np.outer(z, P[:, k]))
    Y += noise * rng.normal(size=Y.shape) * (np.std(Y) + 1e-12)
    return Y


def obs_index(case_sys, channels, rtol=1e-4, pmax=None):
    """smallest number p of block rows [C; CA; ...; CA^(p-1)] (outputs = channels) with numerical rank 2m"""
    S = Sys(case_sys)
    n = 2 * S.m
    pmax = pmax or n + 1
    for p in range(1, pmax + 1):
        O, _, _ = S.observability(p, channels=channels)
        if O.shape[0] < n:
            continue
        sv = np.linalg.svd(O, compute_uv=False)
        if sv[n - 1] > rtol * sv[0]:
            return p
    return None
