"""Synthetic pole tables (rows x orders) for the label / extraction / diagram checks.

A table case is compact JSON (sizes, knobs and one PRNG key); ``build`` expands it into
Fn, Xi, Phi (and optional covariance tables) that share one NaN pattern.
"""
from __future__ import annotations

import numpy as np
from hypothesis import strategies as st

from .core import rng_of


@st.composite
def table_case(draw, max_rows=12, max_cols=40, min_cols=2, with_cov=False):
    rows = draw(st.one_of(st.integers(1, 4), st.integers(1, max_rows)))
    cols = draw(st.one_of(st.integers(min_cols, min(6, max_cols)), st.integers(min_cols, max_cols)))
    return {
        "rows": rows,
        "cols": cols,
        "nch": draw(st.integers(1, 6)),
        "nmodes": draw(st.integers(0, min(rows, 5))),
        "pert": draw(st.sampled_from([0.0, 1e-4, 3e-3, 8e-3, 2e-2, 6e-2])),  # relative jitter of modes between orders
        "pnan": draw(st.sampled_from([0.0, 0.1, 0.3, 0.6])),
        "pmiss": draw(st.sampled_from([0.0, 0.15, 0.4])),  # probability that a physical mode is absent at an order
        "dup": draw(st.booleans()),  # conjugate duplicates
        "complex": draw(st.booleans()),
        "cluster": draw(st.booleans()),  # closely spaced physical modes
        "empty_col": draw(st.booleans()),
        "cov": with_cov and draw(st.booleans()),
        "fscale": draw(st.sampled_from([1.0, 10.0, 0.05, 250.0, 1e-6, 1e5])),  # the unit of time is the user's (micro-seconds, days ...)
        "seed": draw(st.integers(0, 2**32 - 1)),
    }


def build(tc):
    """-> dict(Fn, Xi, Phi, Fn_cov, Xi_cov, Phi_cov, modes)  Fn (rows, cols), Phi (rows, cols, nch) complex."""
    rng = rng_of(tc["seed"])
    R, C, nch = tc["rows"], tc["cols"], tc["nch"]
    Fn = np.full((R, C), np.nan)
    Xi = np.full((R, C), np.nan)
    Phi = np.full((R, C, nch), np.nan, dtype=complex)
    mid = np.full((R, C), -2, dtype=int)  # -2 empty, -1 spurious, k physical mode k
    nm = tc["nmodes"]
    fs = tc["fscale"]
    if tc["cluster"] and nm >= 2:
        base = rng.uniform(1, 5) * fs
        f0 = base * (1 + np.arange(nm) * rng.choice([0.004, 0.02, 0.08]))
    else:
        f0 = np.sort(rng.uniform(0.5, 20, size=nm)) * fs
    x0 = rng.uniform(0.005, 0.08, size=nm)
    p0 = rng.normal(size=(nm, nch)) + (1j * rng.normal(size=(nm, nch)) if tc["complex"] else 0)
    for c in range(C):
        slots = list(rng.permutation(R))
        for k in range(nm):
            if rng.random() < tc["pmiss"] or not slots:
                continue
            f = f0[k] * (1 + tc["pert"] * rng.normal())
            x = x0[k] * (1 + 5 * tc["pert"] * rng.normal())
            p = p0[k] + tc["pert"] * 3 * (rng.normal(size=nch) + (1j * rng.normal(size=nch) if tc["complex"] else 0))
            r = slots.pop()
            Fn[r, c], Xi[r, c], Phi[r, c] = f, abs(x) + 1e-4, p
            mid[r, c] = k
            if tc["dup"] and slots:
                r2 = slots.pop()
                Fn[r2, c], Xi[r2, c], Phi[r2, c] = f, abs(x) + 1e-4, np.conj(p)
                mid[r2, c] = k
        # spurious poles in the remaining slots
        for r in slots:
            if rng.random() < tc["pnan"]:
                continue
            Fn[r, c] = rng.uniform(0.3, 22) * fs
            mid[r, c] = -1
            Xi[r, c] = rng.uniform(0.001, 0.2)
            Phi[r, c] = rng.normal(size=nch) + (1j * rng.normal(size=nch) if tc["complex"] else 0)
    if tc["empty_col"] and C >= 3:
        c = int(rng.integers(0, C))
        Fn[:, c] = np.nan
        Xi[:, c] = np.nan
        Phi[:, c, :] = np.nan
        mid[:, c] = -2
    # unity normalisation like the library's tables
    for r in range(R):
        for c in range(C):
            if np.isfinite(Fn[r, c]):
                v = Phi[r, c]
                k = int(np.argmax(np.abs(v)))
                if abs(v[k]) > 0:
                    Phi[r, c] = v / v[k]
    out = {"Fn": Fn, "Xi": Xi, "Phi": Phi, "Fn_cov": None, "Xi_cov": None, "Phi_cov": None, "f0": f0, "x0": x0, "p0": p0, "mode_id": mid, "rng": rng}
    if tc.get("cov"):
        m = np.isfinite(Fn)
        out["Fn_cov"] = np.where(m, rng.uniform(1e-6, 1e-2, size=(R, C)) * tc.get("covscale", 1.0), np.nan)  # covscale: very uncertain poles
        out["Xi_cov"] = np.where(m, rng.uniform(1e-6, 1e-2, size=(R, C)), np.nan)
        out["Phi_cov"] = np.where(m[:, :, None], rng.uniform(1e-6, 1e-2, size=(R, C, nch)), np.nan)
    return out
