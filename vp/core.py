"""Shared machinery: SUT-call wrapper, judgement collector, sub-check descriptor,
Hypothesis / enumeration drivers, (de)serialisation of cases.

A *case* is a JSON value (dict of ints, floats, strings, lists ...) drawn from a
Hypothesis strategy or produced by an enumeration.  A sub-check's ``judge`` is a
pure function ``case -> J``: it rebuilds every array from the case (bulk noise
comes from ``numpy.random.Generator(PCG64(k))`` with ``k`` a drawn integer),
calls pyOMA2 through :func:`sut`, and compares with its oracle.  Because a case
is plain JSON, every failing case is its own replay file.
"""
from __future__ import annotations

import collections
import hashlib
import json
import math
import os
import time
import traceback

import numpy as np


# ----------------------------------------------------------------------------
# SUT wrapper
# ----------------------------------------------------------------------------
class Raised:
    """Record of an exception raised by the code under test."""

    def __init__(self, exc: BaseException):
        self.exc = exc
        self.type = type(exc).__name__
        self.msg = str(exc)[:300]
        tb = traceback.extract_tb(exc.__traceback__)
        self.where = ""
        for fr in reversed(tb):
            if "/pyoma2/" in fr.filename:
                self.where = f"{os.path.basename(fr.filename)}:{fr.lineno}"
                break

    def __repr__(self):
        return f"Raised({self.type}: {self.msg} @ {self.where})"


def sut(fn, *a, **k):
    """Call the code under test; an exception becomes a value (``Raised``).
    Whether that exception *is* the violation is the oracle's decision."""
    try:
        with np.errstate(all="ignore"):
            return fn(*a, **k)
    except Exception as e:  # noqa: BLE001 - deliberate, see docstring
        return Raised(e)


def raised(x) -> bool:
    return isinstance(x, Raised)


# ----------------------------------------------------------------------------
# Judgement collector
# ----------------------------------------------------------------------------
class J:
    """Collects the verdict for one case."""

    __slots__ = ("fails", "tags", "nontriv", "skips", "nchecks", "info")

    def __init__(self):
        self.fails = []  # (label, message)
        self.tags = []
        self.nontriv = False
        self.skips = []
        self.nchecks = 0
        self.info = {}

    def tag(self, *t):
        self.tags.extend(str(x) for x in t)
        return self

    def nontrivial(self, cond=True):
        if cond:
            self.nontriv = True
        return self

    def skip(self, reason: str):
        """Something was *not judged* (outside a guard)."""
        self.skips.append(str(reason))
        return self

    def check(self, cond, label: str, msg=""):
        self.nchecks += 1
        ok = bool(cond)
        if not ok:
            if callable(msg):
                msg = msg()
            self.fails.append((label, str(msg)[:600]))
        return ok

    def fail(self, label, msg=""):
        return self.check(False, label, msg)

    @property
    def ok(self):
        return not self.fails

    def explain(self):
        if self.ok:
            return "ok (%d checks, skips=%s)" % (self.nchecks, self.skips)
        return "; ".join(f"[{l}] {m}" for l, m in self.fails)


# ----------------------------------------------------------------------------
# Case helpers
# ----------------------------------------------------------------------------
def canon(case) -> str:
    return json.dumps(case, sort_keys=True, allow_nan=True, separators=(",", ":"))


def digest(case) -> str:
    return hashlib.sha1(canon(case).encode()).hexdigest()[:16]


def c2l(z):
    """complex array -> nested [re, im] lists (JSON)."""
    z = np.asarray(z)
    return np.stack([z.real, z.imag], axis=-1).tolist()


def l2c(lst):
    a = np.asarray(lst, dtype=float)
    return a[..., 0] + 1j * a[..., 1]


def rng_of(k: int) -> np.random.Generator:
    return np.random.Generator(np.random.PCG64(int(k)))


def compact(case, maxlen=900):
    """Shorten a case for the evidence file (samples)."""
    s = canon(case)
    if len(s) <= maxlen:
        return case
    return {"_truncated_json": s[:maxlen] + "...", "_digest": digest(case)}


def derive_seed(*parts) -> int:
    h = hashlib.sha256(":".join(str(p) for p in parts).encode()).hexdigest()
    return int(h[:8], 16)


# ----------------------------------------------------------------------------
# Sub-check descriptor
# ----------------------------------------------------------------------------
class Sub:
    """One named sub-check of a property.

    judge     : case -> J
    strategy  : Hypothesis strategy of cases (generated search), or None
    enum      : tier -> (list of cases, exhaustive: bool) for enumerations
    quick/thorough : number of generated cases per tier (strategy only)
    rule      : text: domain, oracle and non-triviality rule
    """

    def __init__(
        self,
        name,
        judge,
        strategy=None,
        enum=None,
        quick=100,
        thorough=2000,
        rule="",
        shards_quick=4,
        shards_thorough=16,
        tiers=("quick", "thorough"),
    ):
        self.name = name
        self.judge = judge
        self.strategy = strategy
        self.enum = enum
        self.quick = quick
        self.thorough = thorough
        self.rule = rule
        self.shards_quick = shards_quick
        self.shards_thorough = shards_thorough
        self.tiers = tiers

    def budget(self, tier):
        return self.quick if tier == "quick" else self.thorough

    def shards(self, tier):
        n = self.shards_quick if tier == "quick" else self.shards_thorough
        return max(1, n)


class HarnessError(Exception):
    pass


# ----------------------------------------------------------------------------
# Shard statistics
# ----------------------------------------------------------------------------
class Stats:
    MAX_FAIL_PER_LABEL = 3
    MAX_SAMPLES = 3

    def __init__(self, sub_name, known_matcher=None):
        self.sub = sub_name
        self.known_matcher = known_matcher
        self.known_hits = collections.Counter()
        self.evaluations = 0
        self.nchecks = 0
        self.nontriv = set()
        self.all_digests = set()
        self.tags = collections.Counter()
        self.skips = collections.Counter()
        self.samples = []
        self.failures = {}  # label -> list of dict(case, msg, size)
        self.nfail = 0
        self.wall = 0.0
        self.exhaustive = None
        self.harness_error = None

    def record(self, case, j: J):
        self.evaluations += 1
        self.nchecks += j.nchecks
        d = digest(case)
        self.all_digests.add(d)
        if j.nontriv:
            if d not in self.nontriv and len(self.samples) < self.MAX_SAMPLES:
                self.samples.append(compact(case))
            self.nontriv.add(d)
        for t in j.tags:
            self.tags[t] += 1
        for s in j.skips:
            self.skips[s] += 1
        if not j.ok:
            seen = set()
            counted = False
            for label, msg in j.fails:
                if label in seen:
                    continue
                seen.add(label)
                if self.known_matcher is not None:
                    kid = self.known_matcher(self.sub, label, case, msg)
                    if kid:
                        self.known_hits[kid] += 1
                        continue
                if not counted:
                    self.nfail += 1
                    counted = True
                lst = self.failures.setdefault(label, [])
                size = len(canon(case))
                lst.append({"case": case, "msg": msg, "size": size, "digest": d})
                lst.sort(key=lambda e: e["size"])
                del lst[self.MAX_FAIL_PER_LABEL:]

    def to_dict(self):
        return {
            "sub": self.sub,
            "evaluations": self.evaluations,
            "nchecks": self.nchecks,
            "nontriv": sorted(self.nontriv),
            "ndistinct": len(self.all_digests),
            "tags": dict(self.tags),
            "skips": dict(self.skips),
            "samples": self.samples,
            "failures": self.failures,
            "nfail": self.nfail,
            "known_hits": dict(self.known_hits),
            "wall": self.wall,
            "exhaustive": self.exhaustive,
            "harness_error": self.harness_error,
        }


# ----------------------------------------------------------------------------
# Drivers
# ----------------------------------------------------------------------------
def _judge(sub: Sub, case) -> J:
    j = sub.judge(case)
    if not isinstance(j, J):
        raise HarnessError(f"{sub.name}: judge returned {type(j)}")
    return j


def drive_generated(sub: Sub, n: int, seedval: int, known_matcher=None) -> Stats:
    """Generated-input search: n cases from the strategy, all judged, failures
    collected and bucketed by label (the search does not stop at the first)."""
    import hypothesis
    from hypothesis import HealthCheck, Phase, given, settings

    st = Stats(sub.name, known_matcher)
    t0 = time.time()

    @hypothesis.seed(seedval)
    @settings(
        max_examples=n,
        database=None,
        deadline=None,
        derandomize=False,
        report_multiple_bugs=False,
        suppress_health_check=list(HealthCheck),
        phases=[Phase.generate],
    )
    @given(sub.strategy)
    def _t(case):
        st.record(case, _judge(sub, case))

    _t()
    st.wall = time.time() - t0
    return st


def drive_enumerated(sub: Sub, tier: str, shard: int, nshards: int, known_matcher=None) -> Stats:
    st = Stats(sub.name, known_matcher)
    t0 = time.time()
    cases, exhaustive = sub.enum(tier)
    for i, case in enumerate(cases):
        if i % nshards != shard:
            continue
        st.record(case, _judge(sub, case))
    st.exhaustive = bool(exhaustive)
    st.wall = time.time() - t0
    return st


def shrink_failure(sub: Sub, label: str, seedval: int, budget: int = 400):
    """Thorough tier: look for a smaller case failing with the same label using
    Hypothesis' own shrinker (generate + shrink phases).  Returns a case or None."""
    import hypothesis
    from hypothesis import HealthCheck, Phase, given, settings

    holder = {}

    class _Found(Exception):
        pass

    @hypothesis.seed(seedval)
    @settings(
        max_examples=budget,
        database=None,
        deadline=None,
        derandomize=False,
        report_multiple_bugs=False,
        suppress_health_check=list(HealthCheck),
        phases=[Phase.generate, Phase.shrink],
    )
    @given(sub.strategy)
    def _t(case):
        j = _judge(sub, case)
        if any(l == label for l, _ in j.fails):
            holder["case"] = case
            holder["msg"] = j.explain()
            raise _Found()

    try:
        _t()
    except _Found:
        return holder.get("case"), holder.get("msg")
    except Exception:  # noqa: BLE001  (flaky / other: keep the unshrunk case)
        return None, None
    return None, None


# ----------------------------------------------------------------------------
# small numeric helpers used by many oracles
# ----------------------------------------------------------------------------
def relerr(a, b):
    a = np.asarray(a)
    b = np.asarray(b)
    den = max(float(np.max(np.abs(b))) if b.size else 0.0, 1e-300)
    return float(np.max(np.abs(a - b))) / den if a.size else 0.0


def mac(a, b) -> float:
    a = np.asarray(a).ravel()
    b = np.asarray(b).ravel()
    den = (np.vdot(a, a).real) * (np.vdot(b, b).real)
    if den == 0 or not math.isfinite(den):
        return float("nan")
    return float(abs(np.vdot(a, b)) ** 2 / den)


def unit_norm(phi):
    """normalise a vector so that its largest-magnitude component is 1."""
    phi = np.asarray(phi, dtype=complex)
    k = int(np.argmax(np.abs(phi)))
    return phi / phi[k]


def same_nan_pattern(*arrs):
    """True if all arrays (2D, or 3D reduced with any over last axis... all) share the NaN pattern."""
    pats = []
    for a in arrs:
        if a is None:
            continue
        a = np.asarray(a)
        n = np.isnan(a)
        if a.ndim == 3:
            if not np.all(n == n[:, :, :1]):
                return False
            n = n[:, :, 0]
        pats.append(n)
    return all(np.array_equal(pats[0], p) for p in pats[1:])


LAYOUTS = ("C", "F", "colslice", "rowstep", "neg")


def relayout(a, kind):
    """an array equal to `a` (2-D) with another memory layout: C / Fortran order, a column-slice view of a wider
    table, every second row of a longer table, or reversed strides.  Values, shape and dtype are unchanged."""
    a = np.asarray(a)
    if kind == "C" or a.ndim != 2:
        return np.ascontiguousarray(a)
    if kind == "F":
        return np.asfortranarray(a)
    r, c = a.shape
    if kind == "colslice":
        wide = np.full((r, c + 3), 7.25, dtype=a.dtype)
        wide[:, 1 : c + 1] = a
        return wide[:, 1 : c + 1]
    if kind == "rowstep":
        tall = np.full((2 * r, c), -3.5, dtype=a.dtype)
        tall[::2] = a
        return tall[::2]
    if kind == "neg":
        return np.ascontiguousarray(a[::-1, ::-1])[::-1, ::-1]
    raise ValueError(kind)
