"""C19 - geometry tables are validated, aligned to sensor order and mapped faithfully."""
from __future__ import annotations

import matplotlib.pyplot as plt
import numpy as np
import pandas as pd
from hypothesis import strategies as st

from pyoma2.algorithms.data.result import BaseResult
from pyoma2.functions import gen
from pyoma2.setup import MultiSetup_PreGER, SingleSetup

from ..core import J, Sub, raised, rng_of, sut
from .c02 import layout

PROPERTY = "C19"
RULE = (
    "table sets as pd.read_excel(index_col=0) yields them: 1..12 sensor names, coordinate/direction rows in a drawn permutation plus unused rows, "
    "optional sheets present or absent, one-based line/surface tables, mapping tables with sensor names, constraint names and 0/NaN cells; "
    "single- and multi-setup name forms (row table, list, array, list of lists) with drawn reference layouts; every single-fault corruption of a valid set; "
    "non-trivial = table order differs from name order, or multi-setup names, or an optional sheet present"
)
ASSUMPTIONS = [
    "openpyxl is not installed: the by_file entry points are not exercised; the DataFrames they would produce are generated directly",
    "column-count corruptions are limited to the tables whose column count the library documents as validated (coordinates, BG nodes, BG lines, BG surfaces; points coordinates, mapping / sign shape)",
    "line and surface tables passed as arrays to def_geo1/def_geo2 are one-based like the Excel template",
]

XYZ = ["x", "y", "z"]


# ---------------------------------------------------------------------------
# valid table sets
# ---------------------------------------------------------------------------
@st.composite
def names_case(draw):
    multi = draw(st.booleans())
    if not multi:
        n = draw(st.integers(1, 12))
        # names as typed into a spreadsheet: now and then with an inner, leading or trailing blank
        deco = st.sampled_from(["{}", "{}", "{}", "{}", "{} ", " {}", "ch {}"])
        return {"multi": False, "names": [draw(deco).format(f"s{draw(st.integers(0, 999))}_{i}") for i in range(n)], "form": draw(st.sampled_from(["table", "list", "array"]))}
    lay = draw(layout(2, 3, 2, 3, nrov_min=1))
    k = lay["nref"]
    setups = []
    for s in lay["setups"]:
        setups.append([(f"r{g}_{len(setups)}" if g < k else (f"m{g} " if g % 4 == 3 else f"m{g}")) for g in s["chan"]])
    return {"multi": True, "layout": lay, "setup_names": setups, "form": draw(st.sampled_from(["table", "listoflists"])), "host": draw(st.sampled_from(["preger", "poser"]))}


def _flat_names(nc):
    if not nc["multi"]:
        return list(nc["names"])
    lay = nc["layout"]
    k = lay["nref"]
    out = [f"REF{i+1}" for i in range(k)]
    for s, nm in zip(lay["setups"], nc["setup_names"]):
        out += [nm[p] for p in range(len(nm)) if p not in s["ref_ind"]]
    return out


def _names_obj(nc):
    if not nc["multi"]:
        if nc["form"] == "table":
            return pd.DataFrame([nc["names"]], index=["names"])
        if nc["form"] == "array":
            return np.array(nc["names"])
        return list(nc["names"])
    if nc["form"] == "listoflists":
        return [list(r) for r in nc["setup_names"]]
    w = max(len(r) for r in nc["setup_names"])
    return pd.DataFrame([list(r) + [np.nan] * (w - len(r)) for r in nc["setup_names"]], index=[f"setup{i}" for i in range(len(nc["setup_names"]))])


def _ref_ind(nc):
    return [list(s["ref_ind"]) for s in nc["layout"]["setups"]] if nc["multi"] else None


def _poser_host(nc):
    """MultiSetup_PoSER over single setups that have been run and had their modes picked (its constructor demands that)"""
    from pyoma2.algorithms import FDD
    from pyoma2.setup import MultiSetup_PoSER

    rng = np.random.default_rng(7)
    singles = []
    for s in nc["layout"]["setups"]:
        ss = SingleSetup(rng.normal(size=(96, len(s["chan"]))), fs=10.0)
        ss.add_algorithms(FDD(name="a", nxseg=32))
        ss.run_all()
        ss.mpe("a", sel_freq=[2.0])
        singles.append(ss)
    return MultiSetup_PoSER(ref_ind=_ref_ind(nc), single_setups=singles, names=["a"])


def _host(nc):
    if not nc["multi"]:
        return SingleSetup(np.zeros((4, max(1, len(nc["names"])))), fs=10.0)
    lay = nc["layout"]
    if nc.get("host") == "poser":
        return _poser_host(nc)
    return MultiSetup_PreGER(fs=10.0, ref_ind=_ref_ind(nc), datasets=[np.zeros((4, len(s["chan"]))) for s in lay["setups"]])


@st.composite
def geo1_case(draw):
    nc = draw(names_case())
    return {"names": nc, "seed": draw(st.integers(0, 2**32 - 1)), "extra_rows": draw(st.integers(0, 3)), "permute": draw(st.booleans()),
            "opt": {k: draw(st.booleans()) for k in ("sensors lines", "BG nodes", "BG lines", "BG surfaces")}, "via": draw(st.sampled_from(["check", "def_df", "def_arrays"]))}


def _geo1_tables(case):
    rng = rng_of(case["seed"])
    names = _flat_names(case["names"])
    n = len(names)
    rows = names + [f"unused{i}" for i in range(case["extra_rows"])]
    coord = rng.integers(-20, 20, size=(len(rows), 3)).astype(float)
    dirs = rng.integers(-1, 2, size=(len(rows), 3)).astype(float)
    order = rng.permutation(len(rows)) if case["permute"] else np.arange(len(rows))
    idx = [rows[i] for i in order]
    d = {
        "sensors names": _names_obj(case["names"]),
        "sensors coordinates": pd.DataFrame(coord[order], index=idx, columns=XYZ),
        "sensors directions": pd.DataFrame(dirs[order], index=idx, columns=XYZ),
    }
    truth = {"coord": {r: coord[i] for i, r in enumerate(rows)}, "dirs": {r: dirs[i] for i, r in enumerate(rows)}}
    if case["opt"]["sensors lines"] and n >= 2:
        m = int(rng.integers(1, 5))
        d["sensors lines"] = pd.DataFrame(rng.integers(1, n + 1, size=(m, 2)), index=np.arange(1, m + 1))
    nb = int(rng.integers(2, 6))
    if case["opt"]["BG nodes"]:
        d["BG nodes"] = pd.DataFrame(rng.integers(-9, 9, size=(nb, 3)).astype(float), index=np.arange(1, nb + 1), columns=XYZ)
    if case["opt"]["BG lines"]:
        d["BG lines"] = pd.DataFrame(rng.integers(1, nb + 1, size=(3, 2)), index=np.arange(1, 4))
    if case["opt"]["BG surfaces"]:
        d["BG surfaces"] = pd.DataFrame(rng.integers(1, nb + 1, size=(2, 3)), index=np.arange(1, 3))
    return d, truth, names


def _copy_dict(d):
    return {k: (v.copy() if hasattr(v, "copy") else list(v)) for k, v in d.items()}


def _judge_geo1_result(j, res, d, truth, names, tag):
    sn, sc, sd, sl, bn, bl, bs = res
    j.check(list(sn) == names, f"{tag}-names", lambda: f"sens_names {list(sn)} expected {names}")
    if j.check(isinstance(sc, pd.DataFrame) and list(sc.index) == names, f"{tag}-coord-index", lambda: f"coordinate rows {list(getattr(sc, 'index', []))} expected {names}"):
        got = sc[XYZ].to_numpy(dtype=float)
        exp = np.array([truth["coord"][n_] for n_ in names])
        j.check(np.array_equal(got, exp), f"{tag}-coord-values", lambda: "row k of the coordinates is not the row labelled with sensor name k")
    sd = np.asarray(sd, dtype=float)
    exp = np.array([truth["dirs"][n_] for n_ in names])
    j.check(sd.shape == exp.shape and np.array_equal(sd, exp), f"{tag}-dir-values", lambda: f"row k of the directions is not the row labelled with sensor name k: {sd.tolist()} vs {exp.tolist()}")
    for key, val in (("sensors lines", sl), ("BG lines", bl), ("BG surfaces", bs)):
        if key in d:
            e = np.asarray(d[key]).astype(float) - 1
            j.check(val is not None and np.array_equal(np.asarray(val, dtype=float), e), f"{tag}-zero-based", lambda: f"{key}: {None if val is None else np.asarray(val).tolist()} expected {e.tolist()}")
        else:
            j.check(val is None, f"{tag}-absent-none", lambda: f"{key} absent but result is {val!r}")
    if "BG nodes" in d:
        j.check(bn is not None and np.array_equal(np.asarray(bn, dtype=float), np.asarray(d["BG nodes"], dtype=float)), f"{tag}-bg-nodes", "BG nodes changed")
    else:
        j.check(bn is None, f"{tag}-absent-none", lambda: f"BG nodes absent but result is {bn!r}")


def judge_geo1(case):
    j = J()
    d, truth, names = _geo1_tables(case)
    nc = case["names"]
    j.tag(("multi-" + nc.get("host", "preger")) if nc["multi"] else "single", nc["form"], case["via"])
    j.nontrivial(case["permute"] or nc["multi"] or any(k in d for k in ("sensors lines", "BG nodes", "BG lines", "BG surfaces")))
    via = case["via"]
    if via == "check":
        res = sut(gen.check_on_geo1, _copy_dict(d), ref_ind=_ref_ind(nc))
        if j.check(not raised(res), "geo1-raises", lambda: f"{res!r}"):
            _judge_geo1_result(j, res, d, truth, names, "geo1")
        return j
    host = _host(nc)
    kw = dict(sens_names=_names_obj(nc), sens_coord=d["sensors coordinates"].copy())
    arr = via == "def_arrays"
    kw["sens_dir"] = d["sensors directions"].to_numpy() if arr else d["sensors directions"].copy()
    for key, arg in (("sensors lines", "sens_lines"), ("BG nodes", "bg_nodes"), ("BG lines", "bg_lines"), ("BG surfaces", "bg_surf")):
        if key in d:
            kw[arg] = d[key].to_numpy() if arr else d[key].copy()
    r = sut(host.def_geo1, **kw)
    if not j.check(not raised(r), "def_geo1-raises", lambda: f"def_geo1 with {via} arguments ({nc['form']} names): {r!r}"):
        return j
    g = host.geo1
    if j.check(g is not None, "def_geo1-none", "geo1 not set"):
        _judge_geo1_result(j, (g.sens_names, g.sens_coord, g.sens_dir, g.sens_lines, g.bg_nodes, g.bg_lines, g.bg_surf), d, truth, names, "def_geo1")
    # the same table objects define a second geometry (another setup, or a re-definition): same outcome
    host2 = _host(nc)
    r = sut(host2.def_geo1, **kw)
    if j.check(not raised(r), "def_geo1-again-raises", lambda: f"second def_geo1 from the same tables: {r!r}"):
        g = host2.geo1
        _judge_geo1_result(j, (g.sens_names, g.sens_coord, g.sens_dir, g.sens_lines, g.bg_nodes, g.bg_lines, g.bg_surf), d, truth, names, "def_geo1-again")
    return j


# ---------------------------------------------------------------------------
# geo2
# ---------------------------------------------------------------------------
@st.composite
def geo2_case(draw):
    nc = draw(names_case())
    return {"names": nc, "seed": draw(st.integers(0, 2**32 - 1)), "npts_extra": draw(st.integers(0, 4)), "ncstr": draw(st.integers(0, 2)),
            "opt": {k: draw(st.booleans()) for k in ("constraints", "sensors sign", "sensors lines", "sensors surfaces", "BG nodes", "BG lines", "BG surfaces")},
            "via": draw(st.sampled_from(["check", "def_df", "def_arrays"])), "nan_cells": draw(st.booleans())}


def _geo2_tables(case):
    rng = rng_of(case["seed"])
    names = _flat_names(case["names"])
    n = len(names)
    ncs = case["ncstr"] if case["opt"]["constraints"] else 0
    cnames = [f"cstr{i}" for i in range(ncs)]
    cells = list(names) + cnames
    npts = max(1, -(-len(cells) // 3)) + case["npts_extra"]
    slots = [(p, c) for p in range(npts) for c in range(3)]
    pick = rng.permutation(len(slots))
    mp = np.full((npts, 3), 0.0, dtype=object)
    for cell, si in zip(cells, pick[: len(cells)]):
        p, c = slots[si]
        mp[p, c] = cell
    # a second occurrence of a sensor somewhere
    if len(pick) > len(cells) and n:
        p, c = slots[pick[len(cells)]]
        mp[p, c] = names[int(rng.integers(0, n))]
    if case["nan_cells"]:
        for si in pick[len(cells) + 1 : len(cells) + 3]:
            p, c = slots[si]
            mp[p, c] = np.nan
    pidx = [f"p{i}" for i in range(npts)]
    d = {
        "sensors names": _names_obj(case["names"]),
        "points coordinates": pd.DataFrame(rng.integers(-20, 20, size=(npts, 3)).astype(float), index=pidx, columns=XYZ),
        "mapping": pd.DataFrame(mp, index=pidx, columns=XYZ),
    }
    if ncs:
        # any subset (often all) of the sensors, in an order of its own
        ncol = n if rng.random() < 0.4 else int(rng.integers(1, n + 1))
        cols = [names[i] for i in rng.permutation(n)[:ncol]]
        cm = rng.uniform(-1, 1, size=(ncs, len(cols)))
        cm[rng.random(cm.shape) < 0.2] = np.nan
        d["constraints"] = pd.DataFrame(cm, index=cnames, columns=cols)
    elif case["opt"]["constraints"]:
        pass
    if case["opt"]["sensors sign"]:
        d["sensors sign"] = pd.DataFrame(rng.choice([-1.0, 1.0, 0.0], size=(npts, 3)), index=pidx, columns=XYZ)
    if case["opt"]["sensors lines"] and npts >= 2:
        d["sensors lines"] = pd.DataFrame(rng.integers(1, npts + 1, size=(2, 2)), index=[1, 2])
    if case["opt"]["sensors surfaces"] and npts >= 3:
        d["sensors surfaces"] = pd.DataFrame(rng.integers(1, npts + 1, size=(2, 3)), index=[1, 2])
    nb = int(rng.integers(2, 6))
    if case["opt"]["BG nodes"]:
        d["BG nodes"] = pd.DataFrame(rng.integers(-9, 9, size=(nb, 3)).astype(float), index=np.arange(1, nb + 1), columns=XYZ)
    if case["opt"]["BG lines"]:
        d["BG lines"] = pd.DataFrame(rng.integers(1, nb + 1, size=(3, 2)), index=np.arange(1, 4))
    if case["opt"]["BG surfaces"]:
        d["BG surfaces"] = pd.DataFrame(rng.integers(1, nb + 1, size=(2, 3)), index=np.arange(1, 3))
    return d, names


def _judge_geo2_result(j, res, d, names, tag):
    sn, pc, sm, cs, sg, sl, ss_, bn, bl, bs = res
    j.check(list(sn) == names, f"{tag}-names", lambda: f"{list(sn)} expected {names}")
    j.check(np.array_equal(np.asarray(pc, dtype=float), d["points coordinates"].to_numpy(dtype=float)), f"{tag}-points", "points coordinates changed")
    exp_map = d["mapping"].to_numpy(dtype=object).copy()
    for p in range(exp_map.shape[0]):
        for c in range(3):
            v = exp_map[p, c]
            if isinstance(v, float) and np.isnan(v):
                exp_map[p, c] = 0.0
    gm = np.asarray(sm, dtype=object)
    ok = gm.shape == exp_map.shape and all((gm[p, c] == exp_map[p, c]) for p in range(gm.shape[0]) for c in range(3))
    j.check(ok, f"{tag}-mapping", lambda: f"mapping table changed beyond NaN->0: {gm.tolist()} vs {exp_map.tolist()}")
    if "constraints" in d:
        if j.check(cs is not None and list(cs.columns) == names and list(cs.index) == list(d["constraints"].index), f"{tag}-cstr-layout", lambda: f"constraint table columns {None if cs is None else list(cs.columns)} expected {names}"):
            for col in names:
                e = d["constraints"][col].fillna(0).to_numpy(dtype=float) if col in d["constraints"].columns else np.zeros(len(cs))
                j.check(np.array_equal(cs[col].to_numpy(dtype=float), e), f"{tag}-cstr-values", lambda: f"constraint column {col} changed")
    else:
        j.check(cs is None, f"{tag}-absent-none", lambda: f"constraints absent but result {cs!r}")
    if "sensors sign" in d:
        j.check(np.array_equal(np.asarray(sg, dtype=float), d["sensors sign"].to_numpy(dtype=float)), f"{tag}-sign", "sensors sign changed")
    else:
        j.check(sg is not None and np.array_equal(np.asarray(sg, dtype=float), np.ones(np.asarray(pc).shape)), f"{tag}-sign-default", "default sensors sign is not all ones")
    for key, val in (("sensors lines", sl), ("sensors surfaces", ss_), ("BG lines", bl), ("BG surfaces", bs)):
        if key in d:
            e = np.asarray(d[key]).astype(float) - 1
            j.check(val is not None and np.array_equal(np.asarray(val, dtype=float), e), f"{tag}-zero-based", lambda: f"{key}: {None if val is None else np.asarray(val).tolist()} expected {e.tolist()}")
        else:
            j.check(val is None, f"{tag}-absent-none", lambda: f"{key} absent but result is {val!r}")
    if "BG nodes" in d:
        j.check(bn is not None and np.array_equal(np.asarray(bn, dtype=float), np.asarray(d["BG nodes"], dtype=float)), f"{tag}-bg-nodes", "BG nodes changed")
    else:
        j.check(bn is None, f"{tag}-absent-none", lambda: f"BG nodes absent but result {bn!r}")


def judge_geo2(case):
    j = J()
    d, names = _geo2_tables(case)
    nc = case["names"]
    j.tag(("multi-" + nc.get("host", "preger")) if nc["multi"] else "single", nc["form"], case["via"], "cstr" if "constraints" in d else "nocstr")
    j.nontrivial(nc["multi"] or "constraints" in d or len(d) > 3)
    via = case["via"]
    if via == "check":
        res = sut(gen.check_on_geo2, _copy_dict(d), ref_ind=_ref_ind(nc))
        if j.check(not raised(res), "geo2-raises", lambda: f"check_on_geo2 with sheets {sorted(d)}: {res!r}"):
            _judge_geo2_result(j, res, d, names, "geo2")
        return j
    host = _host(nc)
    arr = via == "def_arrays"
    kw = dict(sens_names=_names_obj(nc), pts_coord=d["points coordinates"].copy(), sens_map=d["mapping"].copy())
    for key, arg, as_arr in (("constraints", "cstr", False), ("sensors sign", "sens_sign", False), ("sensors lines", "sens_lines", True), ("sensors surfaces", "sens_surf", True),
                             ("BG nodes", "bg_nodes", True), ("BG lines", "bg_lines", True), ("BG surfaces", "bg_surf", True)):
        if key in d:
            kw[arg] = d[key].to_numpy() if (arr and as_arr) else d[key].copy()
    r = sut(host.def_geo2, **kw)
    if not j.check(not raised(r), "def_geo2-raises", lambda: f"def_geo2 with {via} arguments ({nc['form']} names), optional {sorted(k for k in d if k not in ('sensors names', 'points coordinates', 'mapping'))}: {r!r}"):
        return j
    g = host.geo2
    if j.check(g is not None, "def_geo2-none", "geo2 not set"):
        _judge_geo2_result(j, (g.sens_names, g.pts_coord, g.sens_map, g.cstrn, g.sens_sign, g.sens_lines, g.sens_surf, g.bg_nodes, g.bg_lines, g.bg_surf), d, names, "def_geo2")
    host2 = _host(nc)
    r = sut(host2.def_geo2, **kw)
    if j.check(not raised(r), "def_geo2-again-raises", lambda: f"second def_geo2 from the same tables: {r!r}"):
        g = host2.geo2
        _judge_geo2_result(j, (g.sens_names, g.pts_coord, g.sens_map, g.cstrn, g.sens_sign, g.sens_lines, g.sens_surf, g.bg_nodes, g.bg_lines, g.bg_surf), d, names, "def_geo2-again")
    return j


# ---------------------------------------------------------------------------
# single-fault corruptions
# ---------------------------------------------------------------------------
GEO1_FAULTS = ["drop:sensors names", "drop:sensors coordinates", "drop:sensors directions", "unknown-sheet", "coord-2cols", "coord-4cols", "dir-shape-rows", "dir-shape-cols",
               "bgnodes-cols", "bglines-cols", "bgsurf-cols", "bglines-cols-nonodes", "bgsurf-cols-nonodes", "bgsurf-cols-nolines", "index-mismatch", "name-missing"]
GEO2_FAULTS = ["drop:sensors names", "drop:points coordinates", "drop:mapping", "unknown-sheet", "points-2cols", "mapping-shape", "sign-shape", "bgnodes-cols", "bglines-cols",
               "bgsurf-cols", "bglines-cols-nonodes", "bgsurf-cols-nonodes", "bgsurf-cols-nolines", "name-missing-from-mapping", "cstr-unknown-column", "cstr-unused-row"]


def _corrupt1(d, names, fault, rng):
    d = _copy_dict(d)
    if fault.startswith("drop:"):
        del d[fault[5:]]
    elif fault == "unknown-sheet":
        d["sensor coordinates"] = pd.DataFrame([[1, 2, 3]])
    elif fault == "coord-2cols":
        d["sensors coordinates"] = d["sensors coordinates"].iloc[:, :2]
        d["sensors directions"] = d["sensors directions"].iloc[:, :2]
    elif fault == "coord-4cols":
        d["sensors coordinates"]["w"] = 0.0
        d["sensors directions"]["w"] = 0.0
    elif fault == "dir-shape-rows":
        d["sensors directions"] = pd.concat([d["sensors directions"], pd.DataFrame([[0, 0, 1.0]], index=["extra"], columns=XYZ)])
    elif fault == "dir-shape-cols":
        d["sensors directions"] = d["sensors directions"].iloc[:, :2]
    elif fault == "bgnodes-cols":
        d["BG nodes"] = pd.DataFrame([[0.0, 1.0], [1.0, 2.0]], index=[1, 2])
    elif fault == "bglines-cols":
        d["BG nodes"] = pd.DataFrame([[0.0, 1.0, 0.0], [1.0, 2.0, 0.0]], index=[1, 2])
        d["BG lines"] = pd.DataFrame([[1, 2, 1]], index=[1])
    elif fault == "bgsurf-cols":
        d["BG nodes"] = pd.DataFrame([[0.0, 1.0, 0.0], [1.0, 2.0, 0.0]], index=[1, 2])
        d["BG surfaces"] = pd.DataFrame([[1, 2]], index=[1])
    elif fault == "bgsurf-cols-nolines":
        # nodes given, lines sheet left out, surfaces sheet with the wrong column count
        d["BG nodes"] = pd.DataFrame([[0.0, 1.0, 0.0], [1.0, 2.0, 0.0], [1.0, 0.0, 0.0]], index=[1, 2, 3])
        d.pop("BG lines", None)
        d["BG surfaces"] = pd.DataFrame([[1, 2]], index=[1])
    elif fault in ("bglines-cols-nonodes", "bgsurf-cols-nonodes"):
        # the optional background-nodes sheet is left out, a lines / surfaces sheet with the wrong column count is given
        d.pop("BG nodes", None)
        if fault.startswith("bglines"):
            d["BG lines"] = pd.DataFrame([[1, 2, 1]], index=[1])
        else:
            d["BG surfaces"] = pd.DataFrame([[1, 2]], index=[1])
    elif fault == "index-mismatch":
        idx = list(d["sensors directions"].index)
        idx[0] = str(idx[0]) + "_x"
        d["sensors directions"].index = idx
    elif fault == "name-missing":
        victim = names[int(rng.integers(0, len(names)))]
        keep = [i for i in d["sensors coordinates"].index if i != victim]
        d["sensors coordinates"] = d["sensors coordinates"].loc[keep]
        d["sensors directions"] = d["sensors directions"].loc[keep]
    return d


def _corrupt2(d, names, fault, rng):
    d = _copy_dict(d)
    if fault.startswith("drop:"):
        del d[fault[5:]]
    elif fault == "unknown-sheet":
        d["map"] = pd.DataFrame([[1, 2, 3]])
    elif fault == "points-2cols":
        d["points coordinates"] = d["points coordinates"].iloc[:, :2]
        d["mapping"] = d["mapping"].iloc[:, :2]
    elif fault == "mapping-shape":
        d["mapping"] = pd.concat([d["mapping"], pd.DataFrame([[0.0, 0.0, 0.0]], index=["extra"], columns=XYZ)])
    elif fault == "sign-shape":
        d["sensors sign"] = pd.DataFrame(np.ones((len(d["points coordinates"]) + 1, 3)), columns=XYZ)
    elif fault == "bgnodes-cols":
        d["BG nodes"] = pd.DataFrame([[0.0, 1.0], [1.0, 2.0]], index=[1, 2])
    elif fault == "bgsurf-cols-nolines":
        d["BG nodes"] = pd.DataFrame([[0.0, 1.0, 0.0], [1.0, 2.0, 0.0], [1.0, 0.0, 0.0]], index=[1, 2, 3])
        d.pop("BG lines", None)
        d["BG surfaces"] = pd.DataFrame([[1, 2]], index=[1])
    elif fault in ("bglines-cols-nonodes", "bgsurf-cols-nonodes"):
        d.pop("BG nodes", None)
        if fault.startswith("bglines"):
            d["BG lines"] = pd.DataFrame([[1, 2, 1]], index=[1])
        else:
            d["BG surfaces"] = pd.DataFrame([[1, 2]], index=[1])
    elif fault == "bglines-cols":
        d["BG nodes"] = pd.DataFrame([[0.0, 1.0, 0.0], [1.0, 2.0, 0.0]], index=[1, 2])
        d["BG lines"] = pd.DataFrame([[1, 2, 1]], index=[1])
    elif fault == "bgsurf-cols":
        d["BG nodes"] = pd.DataFrame([[0.0, 1.0, 0.0], [1.0, 2.0, 0.0]], index=[1, 2])
        d["BG surfaces"] = pd.DataFrame([[1, 2]], index=[1])
    elif fault == "name-missing-from-mapping":
        victim = names[int(rng.integers(0, len(names)))]
        d["mapping"] = d["mapping"].replace(victim, 0.0)
        if "constraints" in d and victim in d["constraints"].columns:
            d["constraints"] = d["constraints"].drop(columns=[victim])
    elif fault == "cstr-unknown-column":
        c = d.get("constraints")
        if c is None:
            return None
        c = c.copy()
        c["nosuchsensor"] = 1.0
        d["constraints"] = c
    elif fault == "cstr-unused-row":
        c = d.get("constraints")
        if c is None:
            return None
        extra = pd.DataFrame([[1.0] * len(c.columns)], index=["unusedcstr"], columns=c.columns)
        d["constraints"] = pd.concat([c, extra])
    return d


@st.composite
def corrupt_case(draw):
    geo = draw(st.sampled_from([1, 2]))
    base = draw(geo1_case() if geo == 1 else geo2_case())
    if geo == 2:
        base["opt"]["constraints"] = True
        base["ncstr"] = max(1, base["ncstr"])
    return {"geo": geo, "base": base, "fault": draw(st.sampled_from(GEO1_FAULTS if geo == 1 else GEO2_FAULTS)), "via_def": draw(st.booleans())}


def judge_corrupt(case):
    j = J()
    base = case["base"]
    rng = rng_of(base["seed"] + 3)
    nc = base["names"]
    j.tag(f"geo{case['geo']}", case["fault"], "def" if case["via_def"] else "check")
    j.nontrivial(True)
    if case["geo"] == 1:
        d, truth, names = _geo1_tables(base)
        bad = _corrupt1(d, names, case["fault"], rng)
        fn = gen.check_on_geo1
    else:
        d, names = _geo2_tables(base)
        bad = _corrupt2(d, names, case["fault"], rng)
        fn = gen.check_on_geo2
    if bad is None:
        j.skip("fault-not-applicable")
        return j
    if not case["via_def"] or case["fault"].startswith("drop:") or case["fault"] == "unknown-sheet":
        r = sut(fn, bad, ref_ind=_ref_ind(nc))
        j.check(raised(r) and r.type == "ValueError", "corruption-accepted", lambda: f"geo{case['geo']} fault '{case['fault']}': {('returned a geometry' if not raised(r) else repr(r))} (ValueError expected)")
        return j
    host = _host(nc)
    if case["geo"] == 1:
        kw = dict(sens_names=bad["sensors names"], sens_coord=bad["sensors coordinates"], sens_dir=bad["sensors directions"])
        for key, arg in (("sensors lines", "sens_lines"), ("BG nodes", "bg_nodes"), ("BG lines", "bg_lines"), ("BG surfaces", "bg_surf")):
            if key in bad:
                kw[arg] = bad[key]
        r = sut(host.def_geo1, **kw)
        j.check(raised(r) and r.type == "ValueError" and host.geo1 is None, "corruption-accepted", lambda: f"def_geo1 fault '{case['fault']}': {('geometry defined' if not raised(r) else repr(r))} (ValueError expected)")
    else:
        kw = dict(sens_names=bad["sensors names"], pts_coord=bad["points coordinates"], sens_map=bad["mapping"])
        for key, arg in (("constraints", "cstr"), ("sensors sign", "sens_sign"), ("sensors lines", "sens_lines"), ("sensors surfaces", "sens_surf"), ("BG nodes", "bg_nodes"), ("BG lines", "bg_lines"), ("BG surfaces", "bg_surf")):
            if key in bad:
                kw[arg] = bad[key]
        r = sut(host.def_geo2, **kw)
        j.check(raised(r) and r.type == "ValueError" and host.geo2 is None, "corruption-accepted", lambda: f"def_geo2 fault '{case['fault']}': {('geometry defined' if not raised(r) else repr(r))} (ValueError expected)")
    return j


# ---------------------------------------------------------------------------
# mapping and drawn displacements
# ---------------------------------------------------------------------------
def judge_mapping(case):
    j = J()
    case = dict(case)
    case["opt"] = dict(case["opt"], constraints=True)
    d, names = _geo2_tables(case)
    rng = rng_of(case["seed"] + 9)
    phi = rng.uniform(-1, 1, size=len(names))
    phi[rng.random(len(names)) < 0.2] = 0.0
    res = sut(gen.check_on_geo2, _copy_dict(d), ref_ind=_ref_ind(case["names"]))
    if raised(res):
        j.skip("table-set-rejected")  # judged by geo2_tables
        return j
    sn, pc, sm, cs = res[0], res[1], res[2], res[3]
    j.tag("cstr" if cs is not None else "nocstr")
    j.nontrivial(cs is not None)
    out = sut(gen.dfphi_map_func, phi.copy(), list(sn), sm.copy(), cstrn=None if cs is None else cs.copy())
    if not j.check(not raised(out), "map-raises", lambda: f"{out!r}"):
        return j
    got = np.asarray(out, dtype=float)
    raw = d["mapping"].to_numpy(dtype=object)
    exp = np.zeros(raw.shape)
    val = dict(zip(names, phi))
    if "constraints" in d:
        C = d["constraints"]
        for cn in C.index:
            val[cn] = float(sum((0.0 if np.isnan(C.loc[cn, col]) else C.loc[cn, col]) * val[col] for col in C.columns))
    for p in range(raw.shape[0]):
        for c in range(3):
            v = raw[p, c]
            exp[p, c] = val[v] if isinstance(v, str) else 0.0
    j.check(got.shape == exp.shape and np.allclose(got, exp, rtol=1e-12, atol=1e-14), "map-values", lambda: f"mapped values differ: {got.tolist()} expected {exp.tolist()}")
    if cs is not None:
        # the same names and mapping table with other constraint coefficients (a corrected constraint sheet)
        cs2 = cs.copy() * -1.5 + 0.25
        out2 = sut(gen.dfphi_map_func, phi.copy(), list(sn), sm.copy(), cstrn=cs2.copy())
        if j.check(not raised(out2), "map-raises", lambda: f"second constraint matrix: {out2!r}"):
            val2 = dict(zip(names, phi))
            for cn in cs2.index:
                val2[cn] = float(sum((0.0 if np.isnan(cs2.loc[cn, col]) else cs2.loc[cn, col]) * val2[col] for col in cs2.columns))
            exp2 = np.zeros(raw.shape)
            for p in range(raw.shape[0]):
                for c in range(3):
                    v = raw[p, c]
                    exp2[p, c] = val2[v] if isinstance(v, str) else 0.0
            got2 = np.asarray(out2, dtype=float)
            j.check(got2.shape == exp2.shape and np.allclose(got2, exp2, rtol=1e-12, atol=1e-14), "map-values-second-constraints",
                    lambda: f"after changing only the constraint coefficients the mapped values are {got2.tolist()}, expected {exp2.tolist()}")
    # drawn displacement on Agg
    host = _host(case["names"])
    kw = dict(sens_names=_names_obj(case["names"]), pts_coord=d["points coordinates"].copy(), sens_map=d["mapping"].copy())
    for key, arg in (("constraints", "cstr"), ("sensors sign", "sens_sign")):
        if key in d:
            kw[arg] = d[key].copy()
    r = sut(host.def_geo2, **kw)
    if raised(r):
        j.skip("def_geo2-failed")  # judged by geo2_tables
        return j
    scale = float(rng.choice([1.0, 3.0, 0.5]))
    Phi = np.column_stack([phi, rng.uniform(-1, 1, size=len(names))])
    plt.close("all")
    result = BaseResult(Fn=np.array([1.0, 2.0]), Phi=Phi)
    Phi0 = Phi.copy()
    for colour in ("blue", "red"):  # the same mode of the same result object drawn twice
        fa = sut(host.plot_mode_geo2_mpl, result, mode_nr=1, scaleF=scale, view="3D", color=colour)
        if not j.check(not raised(fa), "plot-geo2-raises", lambda: f"{fa!r}"):
            break
        j.check(np.array_equal(np.asarray(result.Phi), Phi0), "plot-geo2-mutates-result", "plot_mode_geo2_mpl modified the mode shapes of the result it was given")
        fig, ax = fa
        sign = d["sensors sign"].to_numpy(dtype=float) if "sensors sign" in d else np.ones(exp.shape)
        want = d["points coordinates"].to_numpy(dtype=float) + exp * scale * sign
        pts = []
        for col in ax.collections:
            if hasattr(col, "_offsets3d"):
                x, y, z = col._offsets3d
                pts += list(zip(np.ma.filled(x, np.nan).tolist(), np.ma.filled(y, np.nan).tolist(), np.ma.filled(np.asarray(z), np.nan).tolist()))
        pts = np.array(sorted(pts))
        w = np.array(sorted(map(tuple, want.tolist())))
        j.check(pts.shape == w.shape and np.allclose(pts, w, rtol=1e-12, atol=1e-12), "plot-geo2-points", lambda: f"drawn nodes {pts.tolist()} expected points + mapped*sign*scale {w.tolist()}")
    plt.close("all")
    return j


def judge_mode_geo1(case):
    j = J()
    d, truth, names = _geo1_tables(case)
    nc = case["names"]
    rng = rng_of(case["seed"] + 4)
    host = _host(nc)
    r = sut(host.def_geo1, sens_names=_names_obj(nc) if isinstance(_names_obj(nc), pd.DataFrame) else pd.DataFrame([names]) if not nc["multi"] else _names_obj(nc),
            sens_coord=d["sensors coordinates"].copy(), sens_dir=d["sensors directions"].copy())
    if raised(r):
        j.skip("def_geo1-failed")  # judged by geo1_tables
        return j
    j.tag("multi" if nc["multi"] else "single")
    j.nontrivial(case["permute"] or nc["multi"])
    n = len(names)
    Phi = rng.uniform(-1, 1, size=(n, 2))
    scale = float(rng.choice([1.0, 2.0, 0.25]))
    plt.close("all")
    fa = sut(host.plot_mode_geo1, BaseResult(Fn=np.array([1.0, 2.0]), Phi=Phi), mode_nr=2, scaleF=scale, view="3D")
    if not j.check(not raised(fa), "plot-geo1-raises", lambda: f"{fa!r}"):
        plt.close("all")
        return j
    fig, ax = fa
    segs = []
    for ln in ax.lines:
        x, y, z = ln.get_data_3d()
        if len(x) == 2:
            segs.append((float(x[0]), float(y[0]), float(z[0]), float(x[1]), float(y[1]), float(z[1])))
    want = []
    for k, nm in enumerate(names):
        c0 = truth["coord"][nm]
        c1 = c0 + truth["dirs"][nm] * Phi[k, 1] * scale
        want.append(tuple(c0.tolist() + c1.tolist()))
    # every expected arrow must be drawn; what remains may only be the coordinate triad at the origin
    rest = list(segs)
    missing = []
    for wv in want:
        hit = next((i for i, sg in enumerate(rest) if np.allclose(sg, wv, rtol=1e-12, atol=1e-12)), None)
        if hit is None:
            missing.append(wv)
        else:
            rest.pop(hit)
    j.check(not missing, "plot-geo1-arrows", lambda: f"arrows not drawn as start=coordinates of sensor k, end=start+dir*phi_k*scale: missing {missing[:3]}; drawn {sorted(segs)[:6]}")
    triad = [sg for sg in rest if sg[:3] == (0.0, 0.0, 0.0) and sum(1 for v in sg[3:] if v != 0.0) == 1]
    j.check(len(rest) == len(triad) and len(triad) <= 3, "plot-geo1-extra", lambda: f"unexpected extra segments {[sg for sg in rest if sg not in triad][:4]}")
    plt.close("all")
    return j


SUBS = [
    Sub("geo1_tables", judge_geo1, geo1_case(), quick=400, thorough=18000,
        rule="check_on_geo1 / def_geo1 (DataFrame and documented array arguments) on valid table sets: names flattened, rows re-ordered to the names, indices zero-based, absent sheets None"),
    Sub("geo2_tables", judge_geo2, geo2_case(), quick=400, thorough=18000,
        rule="check_on_geo2 / def_geo2 on valid table sets with every combination of optional sheets: outputs as specified, NaN mapping cells -> 0, constraint columns aligned to the names"),
    Sub("corruptions", judge_corrupt, corrupt_case(), quick=1200, thorough=36000,
        rule="every single-fault corruption of a valid table set (13 fault kinds per geometry) raises ValueError and defines no geometry"),
    Sub("mapping", judge_mapping, geo2_case(), quick=100, thorough=9000,
        rule="gen.dfphi_map_func: cell = phi of the named sensor, constraint row . phi for constraint names, 0 elsewhere; plot_mode_geo2_mpl draws points + mapped*sign*scale"),
    Sub("mode_geo1", judge_mode_geo1, geo1_case(), quick=60, thorough=4500,
        rule="plot_mode_geo1 (Agg): arrow k starts at the coordinates of sensor k and ends at + direction*phi_k*scale"),
]
