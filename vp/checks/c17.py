"""C17 - frequency variance equals first-order propagation of the Hankel covariance."""
from __future__ import annotations

import math

import numpy as np
from hypothesis import strategies as st

from pyoma2.algorithms import SSIcov
from pyoma2.functions import ssi
from pyoma2.setup import SingleSetup

from .. import modal
from ..core import relayout, J, Sub, raised, rng_of, sut

PROPERTY = "C17"
RULE = (
    "Hankel matrices = exact rank-2m part + small full-rank part (l = 1..3 channels, reference subsets, br = 2..5), model orders 2..8, "
    "covariance factors with 1..20 drawn columns (column-stacked vec); oracle = central finite differences of SSI_fast -> SSI_poles at two "
    "step sizes that must agree; factor from data against the harness's block-wise construction; non-trivial = order >= 4 and >= 2 factor columns"
)
ASSUMPTIONS = [
    "judged only where singular values sigma_1..sigma_ordmax+1 have relative gaps >= 1e-3, the eigenvalues of the order-n state matrix are separated by >= 0.05 and the two finite-difference step sizes agree to 1e-4; tolerance 1e-3 relative",
    "record lengths for the factor check are chosen so that every block holds exactly N//nb products",
]


def _poles(H, br, ordmax, dt):
    Obs, A, C = ssi.SSI_fast(H, br, ordmax)[:3]
    Fn, Xi, Phi, Lam = ssi.SSI_poles(Obs, A, C, ordmax, dt)[:4]
    return Fn, Lam


def _hankel(case):
    rng = rng_of(case["seed"])
    S = modal.Sys(case["sys"])
    l, m = S.nch, S.m
    refs = case["refs"]
    r = len(refs)
    br = case["br"]
    O, A, C = S.observability(br + 1)
    G = rng.normal(size=(2 * m, r))
    if case.get("weak") and m >= 2:
        G[-2:, :] *= case["weak"]  # the last mode is excited much less than the others (its singular values lie decades below)
    Gam = np.hstack([np.linalg.matrix_power(A, k) @ G for k in range(br + 1)])
    H0 = O @ Gam
    E = rng.normal(size=H0.shape)
    eps = case["eps"] * (case["weak"] * 1e-2 if case.get("weak") and m >= 2 else 1.0)  # the noise floor stays below the weak mode
    H = H0 + eps * np.linalg.norm(H0) / np.linalg.norm(E) * E
    return S, H


@st.composite
def prop_case(draw):
    s = draw(modal.system(1, 4, 1, 3, xi_lo=0.005, xi_hi=0.08, fr_lo=0.03, fr_hi=0.42))
    l = len(s["phi"][0])
    m = len(s["fr"])
    r = draw(st.integers(1, l))
    refs = sorted(draw(st.lists(st.integers(0, l - 1), min_size=r, max_size=r, unique=True)))
    br = draw(st.integers(2, 5))
    omax = min(8, br * l, (br + 1) * r)
    ordmax = draw(st.integers(2, max(2, omax)))
    ordmax = min(ordmax, omax)
    return {"sys": s, "refs": refs, "br": br, "ordmax": ordmax, "eps": draw(st.sampled_from([1e-2, 1e-3, 5e-2])),
            "ncol": draw(st.integers(1, 20)), "tscale": draw(st.sampled_from([1e-3, 1.0, 1e-6])), "seed": draw(st.integers(0, 2**32 - 1)),
            "weak": None,  # a weakly excited mode was tried and withdrawn: with singular values four and more decades apart the finite-difference oracle (steps 1e-6 / 1e-5 of |H|) is itself not trustworthy
            "forder": draw(st.integers(0, 3)) == 0, "hscale": 10.0 ** draw(st.sampled_from([0.0, 0.0, -6.0, -12.0, 4.0]))}


def judge_propagation(case):
    j = J()
    S, H = _hankel(case)
    H = H * float(case.get("hscale", 1.0))  # records in small units give small covariances (the problem is scale-free)
    br, ordmax = case["br"], case["ordmax"]
    if case.get("weak") and S.m >= 2:
        # with a weakly excited mode the noise floor lies 1e-6 .. 1e-7 below the strongest singular value: orders that reach into it
        # make the sensitivity matrices (terms H^T H / sigma_i^2) numerically singular, so stay within the 2m signal directions
        ordmax = min(ordmax, 2 * S.m)
        j.tag("weak-mode")
    if ordmax < 2 or ordmax > min(H.shape) - 1:
        j.skip("order-exceeds-matrix")
        return j
    dt = S.dt
    rng = rng_of(case["seed"] + 1)
    nc = case["ncol"]
    if case["seed"] % 5 == 0 and H.size <= 64:
        nc = H.size  # as many factor columns as Hankel entries: the factor is a square matrix
        j.tag("square-factor")
    D = rng.normal(size=(nc,) + H.shape)
    D = D / np.linalg.norm(D.reshape(nc, -1), axis=1)[:, None, None] * np.linalg.norm(H) * case["tscale"]
    T = np.stack([d.flatten(order="F") for d in D], axis=1)  # column-stacked vec
    sv = np.linalg.svd(H, compute_uv=False)
    gaps = (sv[: ordmax] - sv[1 : ordmax + 1]) / sv[: ordmax]
    if np.min(gaps) < 1e-3:
        j.skip("singular-value-gap<1e-3")
        return j
    Hin = np.asfortranarray(H.copy()) if case.get("forder") else H.copy()  # memory layout must not matter
    Hin0 = Hin.copy()
    out = sut(ssi.SSI_fast, Hin, br, ordmax, calc_unc=True, T=T.copy(), nb=nc)
    if raised(out) and out.type == "LinAlgError" and case.get("weak"):
        j.skip("sensitivity-matrix-singular-at-a-weak-singular-value")
        return j
    if not j.check(not raised(out), "fast-unc-raises", lambda: f"{out!r}"):
        return j
    Obs, A, C, Q1, Q2, Q3, Q4 = out
    pol = sut(ssi.SSI_poles, Obs, A, C, ordmax, dt, calc_unc=True, Q1=Q1, Q2=Q2, Q3=Q3, Q4=Q4)
    if not j.check(not raised(pol), "poles-unc-raises", lambda: f"{pol!r}"):
        return j
    Fn, Xi, Phi, Lam, Fn_cov = pol[0], pol[1], pol[2], pol[3], pol[4]
    j.check(np.array_equal(Hin, Hin0), "hankel-mutated", "SSI_fast modified the Hankel matrix it was given")
    # a second evaluation with the same sensitivity matrices gives the same variances
    pol2 = sut(ssi.SSI_poles, Obs, A, C, ordmax, dt, calc_unc=True, Q1=Q1, Q2=Q2, Q3=Q3, Q4=Q4)
    if j.check(not raised(pol2), "poles-unc-again-raises", lambda: f"{pol2!r}"):
        j.check(np.array_equal(np.asarray(pol2[4]), np.asarray(Fn_cov), equal_nan=True), "variance-second-call", "a second SSI_poles call on the same Q matrices reports different variances")
    if not j.check(Fn_cov is not None and np.asarray(Fn_cov).shape == Fn.shape, "cov-shape", lambda: f"{None if Fn_cov is None else np.asarray(Fn_cov).shape} vs {Fn.shape}"):
        return j
    norm = np.linalg.norm(H)
    hs = (1e-6, 1e-5)
    # finite differences: dfn[c][h] arrays aligned to the base poles
    def fd(h):
        out_ = np.full((nc,) + Fn.shape, np.nan)
        for c in range(nc):
            step = h * norm / np.linalg.norm(D[c])
            Fp, Lp = _poles(H + step * D[c], br, ordmax, dt)
            Fm, Lm = _poles(H - step * D[c], br, ordmax, dt)
            for n in range(2, ordmax + 1):
                base = Lam[:n, n]
                for jj in range(n):
                    ip = int(np.argmin(np.abs(Lp[:n, n] - base[jj])))
                    im = int(np.argmin(np.abs(Lm[:n, n] - base[jj])))
                    out_[c, jj, n] = (Fp[ip, n] - Fm[im, n]) / (2 * step)
        return out_

    d1, d2 = fd(hs[0]), fd(hs[1])
    judged = 0
    worst = 0.0
    for n in range(2, ordmax + 1):
        mu = np.exp(Lam[:n, n] * dt)
        sep = min(abs(mu[a] - mu[b]) for a in range(n) for b in range(a + 1, n)) if n > 1 else 1.0
        if sep < 0.05:
            j.skip("eigenvalue-separation<0.05")
            continue
        for jj in range(n):
            a, b = d1[:, jj, n], d2[:, jj, n]
            v1, v2 = float(np.sum(a**2)), float(np.sum(b**2))
            if not (np.isfinite(v1) and np.isfinite(v2)) or v1 <= 0:
                j.skip("fd-nonfinite")
                continue
            if abs(v1 - v2) > 1e-4 * max(v1, v2):
                j.skip("fd-step-sizes-disagree")
                continue
            got = float(Fn_cov[jj, n])
            judged += 1
            rel = abs(got - v1) / v1
            worst = max(worst, rel)
            if not j.check(rel <= 1e-3, "variance", lambda: f"order {n} pole {jj} (fn={Fn[jj, n]:.5g}): reported variance {got:.6e}, first-order propagation (finite differences) {v1:.6e}, rel. diff {rel:.3e}; {nc} factor column(s)"):
                return j
    j.tag(f"ncol={'1' if nc == 1 else '>1'}", f"judged={min(judged, 1)}")
    j.nontrivial(ordmax >= 4 and nc >= 2 and judged > 0)
    return j


# ---------------------------------------------------------------------------
# the factor produced from data
# ---------------------------------------------------------------------------
@st.composite
def factor_case(draw):
    l = draw(st.integers(1, 3))
    r = draw(st.integers(1, l))
    br = draw(st.integers(1, 5))
    nb = draw(st.integers(2, 12))
    Nb = draw(st.integers(5, 40))
    N = nb * Nb + 1 + draw(st.integers(0, Nb - 1))  # N-1 >= nb*Nb products; N//nb == Nb
    return {"l": l, "refs": sorted(draw(st.lists(st.integers(0, l - 1), min_size=r, max_size=r, unique=True))), "br": br, "nb": nb, "N": N,
            "seed": draw(st.integers(0, 2**32 - 1)), "dtype": draw(st.sampled_from(["float64", "float64", "float64", "int16", "int32", "int64"])),
            "layout": draw(st.sampled_from(["C", "C", "F", "colslice", "neg"]))}


def judge_factor(case):
    j = J()
    l, refs, br, nb, N = case["l"], case["refs"], case["br"], case["nb"], case["N"]
    r = len(refs)
    p, q = br, br + 1
    Ndat = N + p + q
    rng = rng_of(case["seed"])
    Y = np.cumsum(rng.normal(size=(l, Ndat)), axis=1) * 0.05 + rng.normal(size=(l, Ndat))
    dt_ = case.get("dtype", "float64")
    if dt_ != "float64":
        Y = np.rint(Y * {"int16": 40.0, "int32": 3e3, "int64": 1e5}[dt_])  # whole-number records (modest raw counts) in an integer dtype
    R = Y[refs, :]
    j.tag(f"l={l}", f"r={r}", dt_, "layout=" + case.get("layout", "C"))
    j.nontrivial(l > 1 or br > 1)
    out = sut(ssi.build_hank, relayout(Y.astype(dt_), case.get("layout", "C")), relayout(R.astype(dt_), case.get("layout", "C")), br, "cov_mm", calc_unc=True, nb=nb)
    if not j.check(not raised(out), "factor-raises", lambda: f"{out!r}"):
        return j
    H, T = np.asarray(out[0]), out[1]
    if not j.check(T is not None and np.asarray(T).shape == ((p + 1) * l * q * r, nb), "factor-shape", lambda: f"{None if T is None else np.asarray(T).shape}, expected {((p+1)*l*q*r, nb)}"):
        return j
    T = np.asarray(T)
    Nb = N // nb
    s = np.arange(N - 1)
    Yf = np.vstack([Y[:, q + 1 + i + s] for i in range(p + 1)])
    Yp = np.vstack([R[:, q - jj + s] for jj in range(q)])
    Hfull = Yf @ Yp.T / N
    if not j.check(np.allclose(H, Hfull, rtol=1e-10, atol=1e-12 * np.max(np.abs(Hfull))), "factor-hankel", "Hankel matrix differs from the lagged-sum definition (see C12)"):
        return j
    exp = np.empty(T.shape, dtype=float)
    for k in range(nb):
        sl = slice(k * Nb, (k + 1) * Nb)
        Hk = Yf[:, sl] @ Yp[:, sl].T / Nb
        exp[:, k] = (Hk - Hfull).flatten(order="F") / math.sqrt(nb * (nb - 1))
    sc = np.max(np.abs(exp))
    j.check(np.max(np.abs(T - exp)) <= 1e-10 * sc, "factor-columns", lambda: f"covariance factor differs from vec_F(H_k - H)/sqrt(nb(nb-1)): max diff {np.max(np.abs(T - exp)):.3e} (scale {sc:.3e}); row-major vec would differ by {np.max(np.abs(T - np.stack([(e.reshape(H.shape, order='F')).flatten(order='C') for e in exp.T], axis=1))):.3e}")
    G, Ge = T @ T.T, exp @ exp.T
    j.check(np.max(np.abs(G - Ge)) <= 1e-9 * np.max(np.abs(Ge)), "factor-gram", lambda: f"Gram matrix of the factor differs from the sample covariance of the mean (max rel diff {np.max(np.abs(G - Ge))/np.max(np.abs(Ge)):.3e})")
    return j


# ---------------------------------------------------------------------------
# through the class
# ---------------------------------------------------------------------------
@st.composite
def e2e_case(draw):
    s = draw(modal.system(1, 2, 2, 3, xi_lo=0.01, xi_hi=0.05, fr_lo=0.05, fr_hi=0.4))
    l = len(s["phi"][0])
    return {"sys": s, "br": draw(st.integers(3, 6)), "ordmax": draw(st.integers(2, 6)), "nb": draw(st.integers(4, 12)), "N": draw(st.integers(1200, 2500)),
            "seed": draw(st.integers(0, 2**32 - 1)), "refsub": draw(st.booleans()) and l >= 2}


def judge_e2e(case):
    j = J()
    S = modal.Sys(case["sys"])
    Y = modal.random_response(S, case["N"], case["seed"], noise=0.1)
    refs = [S.nch - 1] if case["refsub"] else None
    br, nb = case["br"], case["nb"]
    r = 1 if refs else S.nch
    ordmax = min(case["ordmax"], br * S.nch - 1, (br + 1) * r - 1)
    if ordmax < 2:
        j.skip("order-too-small")
        return j
    ss = SingleSetup(Y, fs=S.fs)
    neutral = dict(conj=False, xi_max=1.0, mpc_lim=0.0, mpd_lim=2.0, cov_max=1e300)
    kw = dict(name="a", br=br, ordmax=ordmax, method="cov_mm", calc_unc=True, nb=nb, hc=neutral)
    if refs:
        kw["ref_ind"] = refs
    alg = SSIcov(**kw)
    ss.add_algorithms(alg)
    r_ = sut(ss.run_by_name, "a")
    if not j.check(not raised(r_), "e2e-run-raises", lambda: f"{r_!r}"):
        return j
    j.tag("refsub" if refs else "allref")
    j.nontrivial(True)
    res = alg.result
    # harness: T from the definition, propagated through the library's propagation (decided by 'propagation')
    Yt = Y.T
    R = Yt[refs, :] if refs else Yt
    p, q = br, br + 1
    N = Yt.shape[1] - p - q
    Nb = N // nb
    s = np.arange(N - 1)
    Yf = np.vstack([Yt[:, q + 1 + i + s] for i in range(p + 1)])
    Yp = np.vstack([R[:, q - jj + s] for jj in range(q)])
    H = Yf @ Yp.T / N
    T = np.empty((H.size, nb))
    for k in range(nb):
        sl = slice(k * Nb, min((k + 1) * Nb, N - 1))
        Hk = Yf[:, sl] @ Yp[:, sl].T / Nb
        T[:, k] = (Hk - H).flatten(order="F") / math.sqrt(nb * (nb - 1))
    out = sut(ssi.SSI_fast, H, br, ordmax, calc_unc=True, T=T, nb=nb)
    if raised(out):
        raise RuntimeError(f"{out!r}")
    pol = sut(ssi.SSI_poles, out[0], out[1], out[2], ordmax, S.dt, calc_unc=True, Q1=out[3], Q2=out[4], Q3=out[5], Q4=out[6])
    if raised(pol):
        raise RuntimeError(f"{pol!r}")
    exp = np.asarray(pol[4])
    got = np.asarray(res.Fn_poles_cov)
    if not j.check(got.shape == exp.shape, "e2e-shape", lambda: f"{got.shape} vs {exp.shape}"):
        return j
    fin = np.isfinite(got) & np.isfinite(exp)
    j.check(not (np.isfinite(got) & ~np.isfinite(exp)).any(), "e2e-extra-variances", "a variance is reported where the propagation of the harness's factor gives none")
    if not fin.any():
        j.skip("no-finite-variance")
    if fin.any():
        rel = np.max(np.abs(got[fin] - exp[fin]) / np.maximum(np.abs(exp[fin]), 1e-300))
        j.check(rel <= 1e-4, "e2e-variance", lambda: f"SSIcov(calc_unc=True).result.Fn_poles_cov differs from the propagation of the block-wise factor: max rel diff {rel:.3e}")
    return j


SUBS = [
    Sub("propagation", judge_propagation, prop_case(), quick=120, thorough=24000,
        rule="ssi.SSI_fast(calc_unc, T) + ssi.SSI_poles(calc_unc): Fn_cov[j, n] = sum over factor columns of (directional derivative of fn_j)^2, derivatives by central differences"),
    Sub("factor", judge_factor, factor_case(), quick=200, thorough=48000,
        rule="ssi.build_hank('cov_mm', calc_unc=True, nb): T[:, k] = vec_F(H_k - H)/sqrt(nb(nb-1)) with block-wise estimates H_k normalised like H"),
    Sub("end_to_end", judge_e2e, e2e_case(), quick=80, thorough=12000,
        rule="SSIcov(calc_unc=True) through SingleSetup: Fn_poles_cov equals the propagation of the harness's block-wise factor"),
]
