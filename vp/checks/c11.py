"""C11 - modal parameter extraction returns the requested pole, whole and only if close."""
from __future__ import annotations

import numpy as np
from hypothesis import strategies as st

from pyoma2.algorithms import SSIcov, SSIdat, pLSCF
from pyoma2.functions import plscf, ssi
from pyoma2.setup import SingleSetup

from .. import modal, tables
from ..core import J, Sub, raised, sut

PROPERTY = "C11"
RULE = (
    "pole tables with modes missing at some orders, spurious poles, conjugate duplicates, optional covariance tables; requested "
    "frequencies ascending with non-overlapping relative tolerance bands; order = int, list of int, 'find_min'; reference model = "
    "nearest finite pole of the column, returned iff within rtol*f; find_min = lowest column where every request has exactly one "
    "distinct stable pole in its band; non-trivial = a requested mode absent at the chosen order or a spurious pole nearer than the neighbouring request"
)
ASSUMPTIONS = [
    "'within tolerance' is the relative band |p-f| <= rtol*f (first sentence of the statement and the run-parameter documentation)",
    "conjugate duplicates (identical frequency) count as one stable pole; any of the tied poles may be returned, but all fields from the same one",
    "poles within a relative 1e-6 of a band edge: case not judged",
    "orders whose column holds no retained pole are outside the domain",
]

EDGE = 1e-6


@st.composite
def req_case(draw, with_cov, mode):
    tc = draw(tables.table_case(max_rows=10, max_cols=20, with_cov=with_cov))
    tc["nmodes"] = max(tc["nmodes"], draw(st.integers(1, min(tc["rows"], 4))))
    tc["cluster"] = False
    rtol = draw(st.sampled_from([0.05, 0.01, 0.002, 0.1]))
    # jitter of the physical modes relative to the band: mostly inside, sometimes outside
    tc["pert"] = draw(st.sampled_from([0.0, 0.1, 0.3, 1.5])) * rtol
    extra = draw(st.booleans())
    if mode == "find_min":  # construction: make a qualifying order likely (a request without any pole never qualifies)
        tc["pert"] = draw(st.sampled_from([0.0, 0.1, 0.3, 0.3, 1.5])) * rtol
        tc["pmiss"] = draw(st.sampled_from([0.0, 0.15, 0.15, 0.4]))
        tc["cols"] = max(tc["cols"], 6)
        extra = draw(st.integers(0, 9)) == 0
    return {"table": tc, "rtol": rtol, "mode": mode, "pick": draw(st.integers(0, 2**16)), "selform": draw(st.sampled_from(["list", "list", "tuple", "array", "series-permuted-labels"])),
            "delta": draw(st.sampled_from([0.0, 0.2, -0.3, 0.0, 0.2, -0.3, "just-above-band", "just-below-band"])), "extra_req": extra,
            "pstab": draw(st.sampled_from([0.9, 0.6])), "pspur": draw(st.sampled_from([0.0, 0.15])),
            "onset": draw(st.integers(0, 6))}


def _requests(case, t):
    """requested frequencies: a subset of the physical modes (+ optionally one with no pole at all), ascending,
    non-overlapping relative bands"""
    rtol = case["rtol"]
    rng = np.random.Generator(np.random.PCG64(case["pick"]))
    f0 = np.asarray(t["f0"])
    req = []
    for k in range(len(f0)):
        if rng.random() < 0.75:
            if isinstance(case["delta"], str):
                # the pole lies outside the band by half of rtol^2 (clear of the threshold, inside any band that is a little too generous)
                e = rtol * (1 + 0.5 * rtol)
                req.append(float(f0[k] / (1 + e) if case["delta"] == "just-above-band" else f0[k] / (1 - e)))
            else:
                req.append(float(f0[k] * (1 + case["delta"] * rtol)))
    if case["extra_req"]:
        req.append(float((f0.max() if len(f0) else 1.0) * 1.9))
    if not req:
        req = [float(f0[0])] if len(f0) else [1.0]
    req = sorted(req)
    out = []
    for f in req:
        if not out or out[-1] * (1 + rtol) * 1.02 < f * (1 - rtol):
            out.append(f)
    return out


def _near_edge(Fn_col, f, rtol):
    p = Fn_col[np.isfinite(Fn_col)]
    if p.size == 0:
        return False
    d = np.abs(p - f)
    return bool(np.any(np.abs(d - rtol * f) <= EDGE * f))


def model_explicit(Fn, req, orders, rtol):
    """-> list per request: None (nothing returned) or list of candidate row indices (ties)"""
    out = []
    for f, o in zip(req, orders):
        col = Fn[:, o]
        d = np.abs(col - f)
        dmin = np.nanmin(d)
        cand = [int(r) for r in np.nonzero(d == dmin)[0]]
        out.append(cand if dmin <= rtol * f else None)
    return out


def _compare(j, tag, got, t, exp_rows, exp_cols, l):
    """got = (Fn, Xi, Phi, Fn_cov, Xi_cov, Phi_cov); exp_rows[k] = candidate rows for returned mode k, exp_cols[k] its column"""
    Fn, Xi, Phi = np.asarray(got[0]), np.asarray(got[1]), np.asarray(got[2])
    n = len(exp_rows)
    if not j.check(Fn.reshape(-1).shape == (n,) and np.asarray(Xi).reshape(-1).shape == (n,), f"{tag}-count", lambda: f"{Fn.size} frequencies / {np.asarray(Xi).size} dampings returned, model expects {n}"):
        return
    if n == 0:
        return
    Fn = Fn.reshape(-1)
    Xi = np.asarray(Xi).reshape(-1)
    if not j.check(Phi.shape == (l, n), f"{tag}-phi-shape", lambda: f"Phi shape {Phi.shape}, expected {(l, n)}"):
        return
    for k in range(n):
        c = exp_cols[k]
        ok = False
        for r in exp_rows[k]:
            same = Fn[k] == t["Fn"][r, c] and Xi[k] == t["Xi"][r, c] and np.array_equal(Phi[:, k], t["Phi"][r, c, :])
            if same and got[3] is not None and t["Fn_cov"] is not None:
                same = np.asarray(got[3]).reshape(-1)[k] == t["Fn_cov"][r, c] and np.asarray(got[4]).reshape(-1)[k] == t["Xi_cov"][r, c] and np.array_equal(np.asarray(got[5])[:, k], t["Phi_cov"][r, c, :])
            ok = ok or bool(same)
        r0 = exp_rows[k][0]
        j.check(ok, f"{tag}-pole", lambda: f"returned mode {k}: (fn={Fn[k]!r}, xi={Xi[k]!r}) is not the pole at row {exp_rows[k]} column {c}: (fn={t['Fn'][r0, c]!r}, xi={t['Xi'][r0, c]!r}); fields mixed or wrong pole")
    if t["Fn_cov"] is not None:
        j.check(got[3] is not None, f"{tag}-cov-missing", "covariances not returned")


def _selform(req, form):
    """the requested frequencies as a list, a tuple, an array or a pandas Series whose labels are not 0..n-1"""
    req = [float(f) for f in req]
    if form == "tuple":
        return tuple(req)
    if form == "array":
        return np.array(req)
    if form == "series-permuted-labels":
        import pandas as pd

        return pd.Series(req, index=list(range(len(req)))[::-1])
    return req


def _call(kind, req, t, order, Lab, rtol, form="list"):
    req = _selform(req, form)
    if kind == "ssi":
        return sut(ssi.SSI_mpe, req, t["Fn"].copy(), t["Xi"].copy(), t["Phi"].copy(), order, Lab=Lab, rtol=rtol,
                   Fn_cov=None if t["Fn_cov"] is None else t["Fn_cov"].copy(), Xi_cov=None if t["Xi_cov"] is None else t["Xi_cov"].copy(),
                   Phi_cov=None if t["Phi_cov"] is None else t["Phi_cov"].copy())
    out = sut(plscf.pLSCF_mpe, req, t["Fn"].copy(), t["Xi"].copy(), t["Phi"].copy(), order, Lab=Lab, rtol=rtol)
    if raised(out):
        return out
    return (out[0], out[1], out[2], out[3], None, None, None)


def judge_explicit(case, kind):
    j = J()
    t = tables.build(case["table"])
    if kind == "plscf":
        t["Fn_cov"] = t["Xi_cov"] = t["Phi_cov"] = None
    Fn = t["Fn"]
    rtol = case["rtol"]
    req = _requests(case, t)
    rng = np.random.Generator(np.random.PCG64(case["pick"] + 1))
    good_cols = [c for c in range(Fn.shape[1]) if np.isfinite(Fn[:, c]).any()]
    if not good_cols:
        j.skip("no-retained-pole")
        return j
    if case["mode"] == "int":
        o = int(rng.choice(good_cols))
        order, orders = o, [o] * len(req)
    else:
        orders = [int(rng.choice(good_cols)) for _ in req]
        order = list(orders)
    if any(_near_edge(Fn[:, o], f, rtol) for f, o in zip(req, orders)):
        j.skip("pole-near-band-edge")
        return j
    exp = model_explicit(Fn, req, orders, rtol)
    out = _call(kind, req, t, order, None, rtol, case.get("selform", "list"))
    if not j.check(not raised(out), f"{kind}-raises", lambda: f"{out!r}"):
        return j
    rows = [e for e in exp if e is not None]
    cols = [o for e, o in zip(exp, orders) if e is not None]
    _compare(j, kind, (out[0], out[1], out[2], out[4], out[5], out[6]), t, rows, cols, case["table"]["nch"])
    oo = out[3]
    if case["mode"] == "int":
        j.check(np.all(np.asarray(oo) == order), f"{kind}-order-out", lambda: f"order_out={oo!r} for order {order}")
    else:
        j.check(np.asarray(oo).shape == (len(req),) and np.all(np.asarray(oo) == np.asarray(order)), f"{kind}-order-out", lambda: f"order_out={oo!r} for order {order}")
    missing = any(e is None for e in exp)
    # a pole of a *different* request is the nearest one although this mode is absent
    stolen = False
    for k, (f, o) in enumerate(zip(req, orders)):
        if exp[k] is None:
            col = Fn[:, o]
            p = col[np.nanargmin(np.abs(col - f))]
            if any(abs(p - g) <= rtol * g for g in req):
                stolen = True
    j.tag("missing_mode" if missing else "all_found", "neighbour_pole_nearest" if stolen else "-", "cov" if t["Fn_cov"] is not None else "nocov", case["mode"])
    j.nontrivial(missing or stolen)
    return j


def model_find_min(Fn, Lab, req, rtol):
    R, C = Fn.shape
    for c in range(C):
        rows = []
        ok = True
        for f in req:
            col = Fn[:, c]
            inb = np.isfinite(col) & (Lab[:, c] == 1) & (np.abs(col - f) <= rtol * f)
            vals = np.unique(col[inb])
            if len(vals) != 1:
                ok = False
                break
            rows.append([int(r) for r in np.nonzero(inb)[0]])
        if ok:
            return c, rows
    return None, None


def judge_find_min(case, kind):
    j = J()
    t = tables.build(case["table"])
    if kind == "plscf":
        t["Fn_cov"] = t["Xi_cov"] = t["Phi_cov"] = None
    Fn = t["Fn"]
    rtol = case["rtol"]
    req = _requests(case, t)
    rng = np.random.Generator(np.random.PCG64(case["pick"] + 2))
    mid = t["mode_id"]
    u = rng.random(Fn.shape)
    Lab = np.where(mid >= 0, u < case["pstab"], (mid == -1) & (u < case["pspur"])).astype(int)
    Lab[:, : max(1, min(case.get("onset", 0), Fn.shape[1] - 1))] = 0
    stable = np.isfinite(Fn) & (Lab == 1)
    for f in req:
        d = np.abs(Fn[stable] - f)
        if np.any(np.abs(d - rtol * f) <= EDGE * f):
            j.skip("stable-pole-near-band-edge")
            return j
    c, rows = model_find_min(Fn, Lab, req, rtol)
    # does an absolute band of the same number decide differently?
    ca, _ = None, None
    for cc in range(Fn.shape[1]):
        okc = True
        for f in req:
            col = Fn[:, cc]
            inb = np.isfinite(col) & (Lab[:, cc] == 1) & (np.abs(col - f) <= rtol)
            if len(np.unique(col[inb])) != 1:
                okc = False
                break
        if okc:
            ca = cc
            break
    j.tag("abs_rel_differ" if ca != c else "abs_rel_same", "found" if c is not None else "none_qualifies")
    out = _call(kind, req, t, "find_min", Lab.copy(), rtol, case.get("selform", "list"))
    if not j.check(not raised(out), f"{kind}-fm-raises", lambda: f"{out!r}"):
        return j
    if c is None:
        j.skip("no-order-qualifies")
        return j
    j.nontrivial(c >= 2)
    oo = out[3]
    if not j.check(oo is not None and np.all(np.asarray(oo) == c), f"{kind}-fm-order", lambda: f"order_out={oo!r}, lowest qualifying column is {c} (requests {req}, rtol {rtol})"):
        return j
    _compare(j, kind + "-fm", (out[0], out[1], out[2], out[4], out[5], out[6]), t, rows, [c] * len(req), case["table"]["nch"])
    return j


# ---------------------------------------------------------------------------
# through the classes
# ---------------------------------------------------------------------------
@st.composite
def class_case(draw):
    s = draw(modal.system(1, 3, 2, 4, xi_lo=0.005, xi_hi=0.04, fr_lo=0.04, fr_hi=0.4, allow_complex=False))
    alg = draw(st.sampled_from(["SSIcov", "SSIdat", "pLSCF"]))
    ordmax = draw(st.integers(6, 14))
    return {"sys": s, "alg": alg, "ordmax": ordmax, "br": draw(st.integers(8, 12)), "N": draw(st.integers(1500, 3000)),
            "seed": draw(st.integers(0, 2**32 - 1)), "rtol": draw(st.sampled_from([0.05, 0.01])),
            "mode": draw(st.sampled_from(["int", "list", "find_min"])), "pick": draw(st.integers(0, 2**16)),
            "unc": draw(st.booleans()), "extra_req": draw(st.booleans()),
            "selform": draw(st.sampled_from(["list", "list", "tuple", "array", "series-permuted-labels"]))}


def judge_class(case):
    j = J()
    S = modal.Sys(case["sys"])
    Y = modal.random_response(S, case["N"], case["seed"], noise=0.05)
    ss = SingleSetup(Y, fs=S.fs)
    an = case["alg"]
    j.tag(an, case["mode"])
    if an == "pLSCF":
        alg = pLSCF(name="a", ordmax=case["ordmax"], nxseg=256)
    elif an == "SSIcov":
        alg = SSIcov(name="a", br=case["br"], ordmax=case["ordmax"], calc_unc=case["unc"], nb=20)
    else:
        alg = SSIdat(name="a", br=case["br"], ordmax=case["ordmax"])
    ss.add_algorithms(alg)
    r = sut(ss.run_by_name, "a")
    if not j.check(not raised(r), "class-run-raises", lambda: f"{r!r}"):
        return j
    res = alg.result
    # copies: the model works on the tables as they were after the run, and the tables must survive every extraction
    t = {"Fn": np.array(res.Fn_poles), "Xi": np.array(res.Xi_poles), "Phi": np.array(res.Phi_poles),
         "Fn_cov": None if getattr(res, "Fn_poles_cov", None) is None else np.array(res.Fn_poles_cov),
         "Xi_cov": None if getattr(res, "Xi_poles_cov", None) is None else np.array(res.Xi_poles_cov), "Phi_cov": None}
    Fn = t["Fn"]
    Lab = np.array(res.Lab)

    def _tables_intact():
        ok = np.array_equal(np.asarray(res.Fn_poles), t["Fn"], equal_nan=True) and np.array_equal(np.asarray(res.Xi_poles), t["Xi"], equal_nan=True)
        ok = ok and np.array_equal(np.asarray(res.Phi_poles), t["Phi"], equal_nan=True) and np.array_equal(np.asarray(res.Lab), Lab, equal_nan=True)
        return j.check(ok, "class-tables-changed", "mpe changed the pole / label tables of the result (a later extraction on the same object sees other poles)")
    rtol = case["rtol"]
    req = sorted(float(f) for f in S.fn)
    if case["extra_req"]:
        req.append(req[-1] * 1.3 if req[-1] * 1.3 < 0.49 * S.fs else req[-1] * 1.05)
    keep = []
    for f in req:
        if not keep or keep[-1] * (1 + rtol) * 1.02 < f * (1 - rtol):
            keep.append(f)
    req = keep
    rng = np.random.Generator(np.random.PCG64(case["pick"]))
    good = [c for c in range(Fn.shape[1]) if np.isfinite(Fn[:, c]).any()]
    if not good:
        j.skip("no-retained-pole")
        return j
    if case["mode"] == "find_min":
        stable = np.isfinite(Fn) & (Lab == 1)
        for f in req:
            d = np.abs(Fn[stable] - f)
            if np.any(np.abs(d - rtol * f) <= EDGE * f):
                j.skip("stable-pole-near-band-edge")
                return j
        c, rows = model_find_min(Fn, Lab, req, rtol)
        r = sut(ss.mpe, "a", sel_freq=_selform(req, case.get("selform", "list")), order="find_min", rtol=rtol)
        if not j.check(not raised(r), "class-fm-raises", lambda: f"{r!r}"):
            return j
        if not _tables_intact():
            return j
        if c is None:
            j.skip("no-order-qualifies")
            return j
        j.nontrivial(True)
        if not j.check(res.order_out is not None and np.all(np.asarray(res.order_out) == c), "class-fm-order", lambda: f"order_out={res.order_out!r}, model {c}"):
            return j
        exp_rows, exp_cols = rows, [c] * len(req)
    else:
        if case["mode"] == "int":
            o = int(rng.choice(good))
            order, orders = o, [o] * len(req)
        else:
            orders = [int(rng.choice(good)) for _ in req]
            order = list(orders)
        if any(_near_edge(Fn[:, o], f, rtol) for f, o in zip(req, orders)):
            j.skip("pole-near-band-edge")
            return j
        exp = model_explicit(Fn, req, orders, rtol)
        r = sut(ss.mpe, "a", sel_freq=_selform(req, case.get("selform", "list")), order=order, rtol=rtol)
        if not j.check(not raised(r), "class-raises", lambda: f"{r!r}"):
            return j
        if not _tables_intact():
            return j
        exp_rows = [e for e in exp if e is not None]
        exp_cols = [o for e, o in zip(exp, orders) if e is not None]
        j.nontrivial(any(e is None for e in exp) or len(req) > 1)
        j.check(np.all(np.asarray(res.order_out) == np.asarray(order)), "class-order-out", lambda: f"{res.order_out!r} vs {order!r}")
    # Phi_cov is never filled by the library (NaN everywhere): compare Fn/Xi covariances only
    got_cov = (getattr(res, "Fn_cov", None), getattr(res, "Xi_cov", None))
    t2 = dict(t)
    t2["Fn_cov"] = None
    _compare(j, "class", (res.Fn, res.Xi, res.Phi, None, None, None), t2, exp_rows, exp_cols, S.nch)
    if t["Fn_cov"] is not None and len(exp_rows) and got_cov[0] is not None and np.asarray(res.Fn).size == len(exp_rows):
        for k in range(len(exp_rows)):
            ok = any(np.array_equal(np.asarray(got_cov[0]).reshape(-1)[k], t["Fn_cov"][r_, exp_cols[k]], equal_nan=True) and res.Fn[k] == Fn[r_, exp_cols[k]] for r_ in exp_rows[k])
            j.check(ok, "class-cov", lambda: f"Fn_cov of returned mode {k} is not that pole's covariance")
    return j


def judge_wiring(case):
    """class-level wiring on synthetic result tables (no identification run): the tables, labels, rtol and
    covariances handed to the extraction function and the fields stored afterwards"""
    from pyoma2.algorithms.data.result import SSIResult, pLSCFResult

    kind = case["kind"]
    t = tables.build(case["table"])
    Lab = None
    if kind == "plscf":
        t["Fn_cov"] = t["Xi_cov"] = t["Phi_cov"] = None
        alg = pLSCF(name="a", ordmax=t["Fn"].shape[1])
        alg.result = pLSCFResult(Fn_poles=t["Fn"].copy(), Xi_poles=t["Xi"].copy(), Phi_poles=t["Phi"].copy(), Lab=np.zeros(t["Fn"].shape, dtype=int))
    else:
        alg = SSIcov(name="a", br=4, ordmax=t["Fn"].shape[1] - 1)
        rng = np.random.Generator(np.random.PCG64(case["pick"] + 2))
        mid = t["mode_id"]
        u = rng.random(t["Fn"].shape)
        Lab = np.where(mid >= 0, u < case["pstab"], (mid == -1) & (u < case["pspur"])).astype(int)
        Lab[:, : max(1, min(case.get("onset", 0), t["Fn"].shape[1] - 1))] = 0
        alg.result = SSIResult(Fn_poles=t["Fn"].copy(), Xi_poles=t["Xi"].copy(), Phi_poles=t["Phi"].copy(), Lab=Lab.copy(),
                               Fn_poles_cov=None if t["Fn_cov"] is None else t["Fn_cov"].copy(),
                               Xi_poles_cov=None if t["Xi_cov"] is None else t["Xi_cov"].copy(),
                               Phi_poles_cov=None if t["Phi_cov"] is None else t["Phi_cov"].copy())
    alg._set_data(np.zeros((4, case["table"]["nch"])), 10.0)

    def call(kind_, req, t_, order, Lab_, rtol, form="list"):
        if case.get("default_rtol"):
            # an earlier call with another tolerance must not change what the documented default (5e-2) means
            sut(alg.mpe, sel_freq=list(req), order=order, rtol=case["first_rtol"])
            r = sut(alg.mpe, sel_freq=list(req), order=order)
        else:
            r = sut(alg.mpe, sel_freq=_selform(req, case.get("selform", "list")), order=order, rtol=rtol)
        if raised(r):
            return r
        res = alg.result
        return (res.Fn, res.Xi, res.Phi, res.order_out, getattr(res, "Fn_cov", None), getattr(res, "Xi_cov", None), getattr(res, "Phi_cov", None))

    global _call
    saved = _call
    _call = call
    try:
        if case["mode"] == "find_min":
            # judge_find_min draws the same labels from the same key
            j = judge_find_min(case, kind)
        else:
            j = judge_explicit(case, kind)
    finally:
        _call = saved
    j.tag("wiring:" + kind)
    return j


@st.composite
def wiring_case(draw):
    kind = draw(st.sampled_from(["ssi", "plscf"]))
    mode = draw(st.sampled_from(["int", "list", "find_min"] if kind == "ssi" else ["int", "list"]))
    c = draw(req_case(kind == "ssi", mode))
    c["kind"] = kind
    c["rtol"] = draw(st.sampled_from([0.05, 0.01, 0.002, 0.1, 0.03, 0.2]))
    if draw(st.integers(0, 3)) == 0:
        c["default_rtol"] = True
        c["first_rtol"] = draw(st.sampled_from([0.2, 0.002, 0.1, 0.01]))
        c["rtol"] = 0.05  # the documented default of SSI*.mpe and pLSCF.mpe
    if mode != "find_min":
        c["table"]["pert"] = draw(st.sampled_from([0.0, 0.1, 0.3, 0.6, 1.5])) * c["rtol"]
    c["selform"] = draw(st.sampled_from(["list", "list", "tuple", "array", "series-permuted-labels"]))
    return c


def _mk(kind, mode):
    if mode == "find_min":
        return lambda case: judge_find_min(case, kind)
    return lambda case: judge_explicit(case, kind)


SUBS = [
    Sub("ssi_int", _mk("ssi", "int"), req_case(True, "int"), quick=800, thorough=30000, rule="ssi.SSI_mpe, one order for all modes"),
    Sub("ssi_list", _mk("ssi", "list"), req_case(True, "list"), quick=800, thorough=30000, rule="ssi.SSI_mpe, one order per mode"),
    Sub("plscf_int", _mk("plscf", "int"), req_case(False, "int"), quick=800, thorough=30000, rule="plscf.pLSCF_mpe, one order for all modes"),
    Sub("plscf_list", _mk("plscf", "list"), req_case(False, "list"), quick=800, thorough=30000, rule="plscf.pLSCF_mpe, one order per mode"),
    Sub("ssi_find_min", _mk("ssi", "find_min"), req_case(True, "find_min"), quick=800, thorough=30000, rule="ssi.SSI_mpe(order='find_min'): lowest qualifying column, all parameters from it"),
    Sub("plscf_find_min", _mk("plscf", "find_min"), req_case(False, "find_min"), quick=800, thorough=30000, rule="plscf.pLSCF_mpe(order='find_min'): lowest qualifying column, all parameters from it"),
    Sub("class_wiring", judge_wiring, wiring_case(), quick=800, thorough=30000,
        rule="SSIcov.mpe / pLSCF.mpe on synthetic result tables installed in the algorithm: same model; checks what the class hands to the extraction function and stores afterwards"),
    Sub("classes", judge_class, class_case(), quick=120, thorough=4000, rule="SSIcov/SSIdat/pLSCF.mpe through SingleSetup on noisy data: same model applied to result.*_poles"),
]


def _plscf_find_min(case, label, msg):
    """call site: plscf.pLSCF_mpe(order='find_min') directly or through pLSCF.mpe"""
    if case.get("mode") != "find_min":
        return False
    if label in ("plscf-fm-order", "plscf-fm-count", "plscf-fm-pole", "plscf-fm-phi-shape"):
        return True
    return case.get("alg") == "pLSCF" and label in ("class-fm-order", "class-count", "class-pole", "class-phi-shape")


KNOWN = {"plscf_find_min_call_site": _plscf_find_min}
