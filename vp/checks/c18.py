"""C18 - mode-shape indicators: bounds, MAC shape/symmetry, scale invariance,
exactness on collinear shapes, MSF identity."""
from __future__ import annotations

import math

import numpy as np
from hypothesis import strategies as st

from pyoma2.functions import gen

from ..core import J, Sub, raised, rng_of, sut

PROPERTY = "C18"
RULE = (
    "complex mode shapes with 2..64 components built from a float strategy with zeros, "
    "unit components and nearly collinear vectors; complex scale factors with modulus 1e-6..1e6; "
    "non-trivial = shape is not purely real/imaginary, or has a zero component, or is (nearly) collinear"
)
ASSUMPTIONS = [
    "indicator values of complex dtype with zero imaginary part are accepted as real",
    "bounds are checked with an absolute slack of 1e-9 (rounding), invariances with 1e-7..1e-9 as stated per sub-check",
]

PI2 = math.pi / 2

# ---------------------------------------------------------------------------
# strategies
# ---------------------------------------------------------------------------
_comp = st.one_of(
    st.floats(-10, 10, allow_nan=False, allow_infinity=False, width=64),
    st.sampled_from([0.0, 1.0, -1.0, 0.5, 1e-3, -1e-3, 1e-8]),
)


@st.composite
def real_vec(draw, nmin=2, nmax=64, nonzero=True):
    n = draw(st.one_of(st.integers(nmin, min(8, nmax)), st.integers(nmin, nmax)))
    v = draw(st.lists(_comp, min_size=n, max_size=n))
    if nonzero and max(abs(x) for x in v) < 1e-3:
        k = draw(st.integers(0, n - 1))
        v[k] = draw(st.sampled_from([1.0, -1.0, 2.5]))
    return v


@st.composite
def cscale(draw):
    """complex factor with modulus 1e-6..1e6 (log-uniform) and any phase."""
    lg = draw(st.one_of(st.floats(-6, 6), st.floats(-6, 6), st.sampled_from([-30.0, -12.0, 12.0, 30.0])))  # "any non-zero complex number": now and then far outside 1e-6..1e6
    ph = draw(st.one_of(st.floats(-math.pi, math.pi), st.sampled_from([0.0, math.pi, PI2, -PI2, math.pi / 4])))
    return [10.0**lg, ph]


def _c(sc):
    return sc[0] * complex(math.cos(sc[1]), math.sin(sc[1]))


@st.composite
def shape(draw):
    """a complex mode shape as {'kind', 're', 'im'}"""
    kind = draw(st.sampled_from(["generic", "generic", "unit", "zeros", "near_collinear", "collinear", "real", "lattice"]))
    re = draw(real_vec())
    n = len(re)
    if kind == "lattice":
        # small whole-number components: exactly symmetric / exactly uncorrelated real and imaginary parts occur often
        re = [float(draw(st.integers(-2, 2))) for _ in range(n)]
        im = [float(draw(st.integers(-2, 2))) for _ in range(n)]
        if not any(re) and not any(im):
            re[0] = 1.0
    elif kind in ("real",):
        im = [0.0] * n
    elif kind == "collinear":
        c = _c(draw(cscale()))
        z = np.asarray(re) * c
        re, im = z.real.tolist(), z.imag.tolist()
    elif kind == "near_collinear":
        c = _c([1.0, draw(st.floats(-math.pi, math.pi))])
        w = draw(st.lists(st.floats(-1, 1), min_size=n, max_size=n))
        eps = 10.0 ** draw(st.floats(-12, -1))
        z = np.asarray(re) * c + eps * 1j * c * np.asarray(w)
        re, im = z.real.tolist(), z.imag.tolist()
    else:
        im = draw(st.lists(_comp, min_size=n, max_size=n))
        if kind == "zeros":
            idx = draw(st.lists(st.integers(0, n - 1), min_size=1, max_size=max(1, n // 2), unique=True))
            for k in idx:
                re[k] = 0.0
                im[k] = 0.0
            if all(abs(a) + abs(b) < 1e-3 for a, b in zip(re, im)):
                k = (idx[0] + 1) % n
                re[k] = 1.0
        if kind == "unit":
            z = np.asarray(re) + 1j * np.asarray(im)
            k = int(np.argmax(np.abs(z)))
            if abs(z[k]) > 0:
                z = z / z[k]
            re, im = z.real.tolist(), z.imag.tolist()
    return {"kind": kind, "re": re, "im": im}


def _z(s):
    return np.asarray(s["re"], dtype=float) + 1j * np.asarray(s["im"], dtype=float)


def _scalar(x):
    """library value -> python float (accept complex with ~zero imaginary part, 1-element arrays)"""
    a = np.asarray(x)
    if a.size != 1:
        return None
    v = a.reshape(-1)[0]
    if np.iscomplexobj(v):
        if not (abs(v.imag) <= 1e-9 * max(1.0, abs(v.real)) or np.isnan(v.imag)):
            return complex(v)
        v = v.real
    return float(v)


def _nontrivial(j, s):
    z = _z(s)
    has_zero = bool(np.any(np.abs(z) == 0))
    cplx = bool(np.any(z.real != 0) and np.any(z.imag != 0))
    j.tag("kind=" + s["kind"])
    if has_zero:
        j.tag("has_zero_component")
    j.tag("n<=8" if len(z) <= 8 else "n>8")
    j.nontrivial(cplx or has_zero or s["kind"] in ("near_collinear", "collinear"))


def _pure(j, fn, *arrs):
    """call an indicator on private copies and check that it left them as they were (complex arrays are handed over
    without conversion, so an in-place normalisation inside the library would show)"""
    ins = [np.array(a, copy=True) for a in arrs]
    keep = [a.copy() for a in ins]
    r = sut(fn, *ins)
    j.check(all(np.array_equal(a, b, equal_nan=True) for a, b in zip(ins, keep)), f"{getattr(fn, '__name__', 'indicator')}-mutates-input",
            lambda: f"{getattr(fn, '__name__', 'indicator')} modified the array(s) it was given")
    return r


# ---------------------------------------------------------------------------
# bounds
# ---------------------------------------------------------------------------
def judge_bounds(case):
    j = J()
    s = case["phi"]
    z = _z(s)
    _nontrivial(j, s)
    tol = 1e-9
    for name, fn, lo, hi in (("MPC", gen.MPC, 0, 1), ("MCF", gen.MCF, 0, 1), ("MPD", gen.MPD, 0, PI2)):
        r = _pure(j, fn, z.copy())
        if not j.check(not raised(r), f"{name}-raises", lambda: f"{name} raised {r!r}"):
            continue
        v = _scalar(r)
        j.check(
            isinstance(v, float) and math.isfinite(v) and lo - tol <= v <= hi + tol,
            f"{name}-bounds",
            lambda: f"{name}={r!r} not a finite real in [{lo},{hi:.4f}] for phi={z.tolist()[:6]}...",
        )
    # MAC against a second shape
    w = _z(case["psi"]) if len(case["psi"]["re"]) == len(z) else None
    if w is not None:
        r = _pure(j, gen.MAC, z.copy(), w.copy())
        if j.check(not raised(r), "MAC-raises", lambda: f"MAC raised {r!r}"):
            v = _scalar(r)
            j.check(
                isinstance(v, float) and math.isfinite(v) and -tol <= v <= 1 + tol,
                "MAC-bounds",
                lambda: f"MAC={r!r}",
            )
    return j


@st.composite
def bounds_case(draw):
    phi = draw(shape())
    n = len(phi["re"])
    psi = draw(shape())
    # second shape of the same length: resize deterministically
    re = (psi["re"] * (n // len(psi["re"]) + 1))[:n]
    im = (psi["im"] * (n // len(psi["im"]) + 1))[:n]
    if all(abs(a) + abs(b) < 1e-3 for a, b in zip(re, im)):
        re[0] = 1.0
    return {"phi": phi, "psi": {"kind": psi["kind"], "re": re, "im": im}}


# ---------------------------------------------------------------------------
# MAC shape and symmetry
# ---------------------------------------------------------------------------
@st.composite
def macset_case(draw):
    n = draw(st.integers(2, 12))
    p = draw(st.integers(1, 4))
    q = draw(st.integers(1, 4))
    ent = st.floats(-5, 5, allow_nan=False, width=64)

    def mat(k):
        out = []
        for _ in range(k):
            re = draw(st.lists(ent, min_size=n, max_size=n))
            im = draw(st.lists(ent, min_size=n, max_size=n))
            if max(abs(x) for x in re + im) < 1e-3:
                re[0] = 1.0
            out.append([re, im])
        return out

    return {"n": n, "X": mat(p), "A": mat(q)}


def _mat(lst):
    return np.array([np.asarray(r) + 1j * np.asarray(i) for r, i in lst]).T  # (n, k)


def judge_mac_shape(case):
    j = J()
    X, A = _mat(case["X"]), _mat(case["A"])
    p, q = X.shape[1], A.shape[1]
    j.tag(f"p={p},q={q}")
    j.nontrivial(p != q or p > 1)
    r = _pure(j, gen.MAC, X.copy(), A.copy())
    r2 = _pure(j, gen.MAC, A.copy(), X.copy())
    if not j.check(not raised(r) and not raised(r2), "MAC-raises", lambda: f"{r!r} {r2!r}"):
        return j
    r = np.asarray(r)
    r2 = np.asarray(r2)
    if p == 1 and q == 1:
        j.check(r.size == 1, "MAC-shape", lambda: f"shape {r.shape} for 1x1")
        r = r.reshape(1, 1)
        r2 = r2.reshape(1, 1)
    else:
        if not j.check(r.shape == (p, q) and r2.shape == (q, p), "MAC-shape", lambda: f"MAC(X,A).shape={r.shape}, expected {(p, q)}; MAC(A,X).shape={r2.shape}"):
            return j
    j.check(np.allclose(r.real, r2.real.T, rtol=1e-9, atol=1e-12), "MAC-symmetry", lambda: f"MAC(X,A)={r.tolist()} MAC(A,X)^T={r2.T.tolist()}")
    if X.shape[0] == A.shape[0]:
        # the two sets as column groups of one table (e.g. the modes of one result split in two)
        parent = np.ascontiguousarray(np.hstack([X, A]))  # row-major: the two column groups interleave in memory
        rv = sut(gen.MAC, parent[:, :p], parent[:, p:])
        if j.check(not raised(rv), "MAC-raises", lambda: f"column groups of one array: {rv!r}"):
            rv = np.asarray(rv).reshape(r.shape) if np.asarray(rv).size == r.size else np.asarray(rv)
            j.check(rv.shape == r.shape and np.allclose(rv.real, r.real, rtol=1e-9, atol=1e-12), "MAC-views", lambda: f"MAC of two column groups of one array {np.asarray(rv).tolist()} differs from MAC of separate copies {r.tolist()}")
    # reference values (independent formula)
    ref = np.empty((p, q))
    for a in range(p):
        for b in range(q):
            ref[a, b] = abs(np.vdot(X[:, a], A[:, b])) ** 2 / (np.vdot(X[:, a], X[:, a]).real * np.vdot(A[:, b], A[:, b]).real)
    j.check(np.allclose(r.real, ref, rtol=1e-9, atol=1e-12), "MAC-value", lambda: f"MAC={r.real.tolist()} reference={ref.tolist()}")
    j.check(np.all(r.real >= -1e-9) and np.all(r.real <= 1 + 1e-9), "MAC-bounds", lambda: f"{r.real.tolist()}")
    return j


# ---------------------------------------------------------------------------
# scale invariance
# ---------------------------------------------------------------------------
@st.composite
def scale_case(draw):
    return {"phi": draw(shape()), "psi": draw(shape()), "c": draw(cscale())}


def _sens_guard(z):
    """Conditioning guard for MPC/MPD/MCF invariance: these indicators are smooth in
    phi except where the 2x2 real/imaginary scatter matrix is nearly isotropic
    (principal direction undefined -> MPD discontinuous).  Return anisotropy in [0,1]."""
    M = np.array([[z.real @ z.real, z.real @ z.imag], [z.real @ z.imag, z.imag @ z.imag]])
    ev = np.linalg.eigvalsh(M)
    return (ev[1] - ev[0]) / max(ev[1], 1e-300)


def judge_scale(case):
    j = J()
    s = case["phi"]
    z = _z(s)
    c = _c(case["c"])
    _nontrivial(j, s)
    j.tag("bigscale" if not 1e-2 < abs(c) < 1e2 else "modscale")
    zs = z * c
    aniso = _sens_guard(z)
    for name, fn, tol in (("MPC", gen.MPC, 1e-7), ("MCF", gen.MCF, 1e-7), ("MPD", gen.MPD, 1e-6)):
        a, b = _pure(j, fn, z.copy()), _pure(j, fn, zs.copy())
        if raised(a) or raised(b):
            j.check(False, f"{name}-raises", f"{a!r} {b!r}")
            continue
        a, b = _scalar(a), _scalar(b)
        if not (isinstance(a, float) and isinstance(b, float) and math.isfinite(a) and math.isfinite(b)):
            # finiteness is judged by 'bounds'/'collinear'; an undefined value cannot be compared
            j.skip(f"{name}-nonfinite")
            continue
        if name == "MPD" and aniso < 1e-3:
            j.skip("MPD-isotropic-scatter")
            continue
        if name == "MPC":
            # mean-removed scatter: guard on its own anisotropy not needed (ratio of eigenvalues is continuous)
            pass
        # MPD uses arccos: near 0 its sensitivity to rounding is ~sqrt(eps)
        t = tol if name != "MPD" else 2e-7 / max(aniso, 1e-3) + 1e-6
        if name == "MPC":
            # the mean removal cancels leading digits when the components are nearly equal
            cen = np.linalg.norm(z - z.mean())
            t = tol + 1e-13 * (np.linalg.norm(z) / max(cen, 1e-300)) ** 2
            if not t < 1e-3:
                j.skip("MPC-nearly-equal-components")
                continue
        j.check(abs(a - b) <= t, f"{name}-scale", lambda: f"{name}(phi)={a!r} {name}(c*phi)={b!r} c={c!r} n={len(z)}")
    w = _z(case["psi"])
    n = min(len(w), len(z))
    a, b = _pure(j, gen.MAC, z[:n].copy(), w[:n].copy()), _pure(j, gen.MAC, zs[:n].copy(), w[:n].copy())
    if raised(a) or raised(b):
        j.check(False, "MAC-raises", f"{a!r} {b!r}")
    else:
        a, b = _scalar(a), _scalar(b)
        if isinstance(a, float) and isinstance(b, float) and math.isfinite(a) and math.isfinite(b):
            j.check(abs(a - b) <= 1e-9, "MAC-scale", lambda: f"MAC(phi,psi)={a!r} MAC(c*phi,psi)={b!r}")
        else:
            j.skip("MAC-nonfinite")
    return j


# ---------------------------------------------------------------------------
# exactly collinear shapes
# ---------------------------------------------------------------------------
@st.composite
def collinear_case(draw):
    v = draw(real_vec())
    return {"v": v, "c": draw(cscale())}


def judge_collinear(case):
    j = J()
    v = np.asarray(case["v"], dtype=float)
    c = _c(case["c"])
    z = v * c
    allequal = bool(np.all(v == v[0]))
    j.tag("all_equal" if allequal else "varied")
    if np.any(v == 0):
        j.tag("has_zero_component")
    j.nontrivial(c.imag != 0 and c.real != 0)
    tol = 1e-7
    r = _pure(j, gen.MAC, z.copy(), v.copy())
    x = None if raised(r) else _scalar(r)
    j.check(isinstance(x, float) and abs(x - 1) <= tol, "collinear-MAC", lambda: f"MAC(c*v, v)={r!r} v={v.tolist()[:8]} c={c!r}")
    r = _pure(j, gen.MPC, z.copy())
    x = None if raised(r) else _scalar(r)
    j.check(isinstance(x, float) and abs(x - 1) <= tol, "collinear-MPC", lambda: f"MPC(c*v)={r!r} v={v.tolist()[:8]} c={c!r}")
    r = _pure(j, gen.MPD, z.copy())
    x = None if raised(r) else _scalar(r)
    # arccos near 1: rounding of 1e-16 in the argument gives 1.5e-8 in the angle
    j.check(isinstance(x, float) and abs(x) <= 1e-6, "collinear-MPD", lambda: f"MPD(c*v)={r!r} v={v.tolist()[:8]} c={c!r}")
    r = _pure(j, gen.MCF, z.copy())
    x = None if raised(r) else _scalar(r)
    j.check(isinstance(x, float) and abs(x) <= tol, "collinear-MCF", lambda: f"MCF(c*v)={r!r} v={v.tolist()[:8]} c={c!r}")
    return j


# ---------------------------------------------------------------------------
# MSF identity
# ---------------------------------------------------------------------------
@st.composite
def msf_case(draw):
    s = draw(shape())
    c = draw(st.one_of(st.floats(-1e6, 1e6), st.floats(-20, 20), st.sampled_from([1.0, -1.0, 0.05, -20.0])))
    return {"phi": s, "c": c}


def judge_msf(case):
    j = J()
    s = case["phi"]
    z = _z(s)
    c = float(case["c"])
    _nontrivial(j, s)
    if s["kind"] == "real":
        z = z.real.astype(float)
    # guard: phi^T phi (no conjugate) must not be (nearly) zero relative to phi^H phi
    g = abs(z @ z) / max(np.vdot(z, z).real, 1e-300)
    if g < 0.05:
        j.skip("phiTphi-guard")
        return j
    r = _pure(j, gen.MSF, z.copy(), (c * z).copy())
    if not j.check(not raised(r), "MSF-raises", lambda: f"{r!r}"):
        return j
    x = _scalar(r)
    j.check(
        isinstance(x, float) and abs(x - c) <= 1e-9 * max(1.0, abs(c)) / g,
        "MSF-identity",
        lambda: f"MSF(v, c*v)={r!r} expected {c!r}",
    )
    return j


def judge_sets(case):
    """MCF and MSF take (n_locations, n_modes) sets: one value per shape (column), equal to the single-shape value"""
    j = J()
    X, A = _mat(case["X"]), _mat(case["A"])
    n, p = X.shape
    j.tag("more_shapes_than_components" if p > n else "tall_or_square")
    j.nontrivial(p >= 2)
    r = _pure(j, gen.MCF, X.copy())
    if j.check(not raised(r), "MCF-set-raises", lambda: f"{r!r}"):
        r = np.asarray(r).reshape(-1)
        if j.check(r.shape == (p,), "MCF-set-shape", lambda: f"MCF of {p} shapes with {n} components returned {r.shape[0]} values"):
            for k in range(p):
                one = _pure(j, gen.MCF, X[:, k].copy())
                j.check(not raised(one) and abs(float(np.asarray(one).reshape(-1)[0]) - r[k]) <= 1e-12, "MCF-set-value", lambda: f"column {k}: {r[k]!r} vs single-shape value {one!r}")
                j.check(-1e-9 <= r[k] <= 1 + 1e-9, "MCF-bounds", lambda: f"{r[k]!r}")
    if p >= 2 and not raised(r) and np.asarray(r).reshape(-1).shape == (p,):
        # every shape of the set multiplied by its own factor (moduli 1e-6 .. 1e6): one value per shape, unchanged
        u = rng_of(int(abs(X[0, 0].real) * 1e6) % (2**31) + p).uniform(-6, 6, size=p)
        u[0], u[-1] = -6.0, 6.0
        rs = _pure(j, gen.MCF, (X * (10.0**u)[None, :] * np.exp(0.7j)).copy())
        if j.check(not raised(rs) and np.asarray(rs).reshape(-1).shape == (p,), "MCF-set-raises", lambda: f"rescaled columns: {rs!r}"):
            rs = np.asarray(rs).reshape(-1)
            bad = [k for k in range(p) if np.linalg.norm(X[:, k]) > 1e-3 and abs(rs[k] - np.asarray(r).reshape(-1)[k]) > 1e-7]
            j.check(not bad, "MCF-set-scale", lambda: f"MCF of the set changed for columns {bad} when every column was multiplied by its own factor: {np.asarray(r).reshape(-1).tolist()} -> {rs.tolist()}")
    q = min(p, A.shape[1])
    c = np.linspace(-2.0, 3.0, q) + 0.25
    r = _pure(j, gen.MSF, X[:, :q].real.copy(), (X[:, :q].real * c[None, :]).copy())
    if j.check(not raised(r), "MSF-set-raises", lambda: f"{r!r}"):
        r = np.asarray(r).reshape(-1)
        ok = r.shape == (q,) and all(np.linalg.norm(X[:, k].real) < 1e-6 or abs(r[k] - c[k]) <= 1e-9 * max(1, abs(c[k])) for k in range(q))
        j.check(ok, "MSF-set-identity", lambda: f"MSF(X, X*c) = {r.tolist()} expected {c.tolist()}")
    return j


@st.composite
def sets_case(draw):
    n = draw(st.integers(2, 8))
    p = draw(st.integers(1, 10))
    ent = st.floats(-5, 5, allow_nan=False, width=64)

    def mat(k):
        out = []
        for _ in range(k):
            re = draw(st.lists(ent, min_size=n, max_size=n))
            im = draw(st.lists(ent, min_size=n, max_size=n))
            if max(abs(x) for x in re + im) < 1e-3:
                re[0] = 1.0
            out.append([re, im])
        return out

    return {"n": n, "X": mat(p), "A": mat(p)}


SUBS = [
    Sub("bounds", judge_bounds, bounds_case(), quick=2000, thorough=100000,
        rule="MPC, MCF in [0,1], MPD in [0,pi/2], MAC in [0,1]; finite real values"),
    Sub("mac_shape", judge_mac_shape, macset_case(), quick=800, thorough=30000,
        rule="MAC(X,A) has shape (#X, #A), equals MAC(A,X)^T and the defining formula; non-trivial = sets of different size or more than one shape"),
    Sub("scale_invariance", judge_scale, scale_case(), quick=2000, thorough=100000,
        rule="MAC, MPC, MPD, MCF unchanged under phi -> c*phi, |c| in [1e-6,1e6]"),
    Sub("collinear_exact", judge_collinear, collinear_case(), quick=2000, thorough=100000,
        rule="phi = c*v with v real: MAC(phi,v)=1, MPC=1, MPD=0, MCF=0, finite"),
    Sub("indicator_sets", judge_sets, sets_case(), quick=500, thorough=20000,
        rule="MCF / MSF on (n_locations, n_modes) sets, including more shapes than components: one value per shape equal to the single-shape value"),
    Sub("msf_identity", judge_msf, msf_case(), quick=1500, thorough=60000,
        rule="MSF(v, c*v) = c for real c, real or complex v (guard |v^T v| >= 0.05 v^H v)"),
]


# known-finding predicates: (case, label, msg) -> bool
def _mpc_all_equal(case, label, msg):
    """components equal (exactly, or up to differences below ~1e-77): the denominator (l0 + l1)^2 of MPC,
    built from the mean-removed scatter matrix np.cov(re, im), is exactly zero (or subnormal) in floating point and MPC = 0/0 or inf"""
    if label not in ("collinear-MPC", "MPC-bounds"):
        return False
    if "v" in case:
        z = np.asarray(case["v"], dtype=float) * _c(case["c"])
    else:
        z = _z(case["phi"])
    with np.errstate(all="ignore"):
        lam = np.linalg.eigvals(np.cov(z.real, z.imag))
        den = (lam[0] + lam[1]) ** 2
    return bool(den == 0 or not np.isfinite(den) or abs(den) < np.finfo(float).tiny)  # zero, overflowed or subnormal (quotient inf / NaN)


KNOWN = {"mpc_all_components_equal": _mpc_all_equal}
