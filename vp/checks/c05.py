"""C05 - pLSCF recovers an exactly rational spectrum and reports its poles."""
from __future__ import annotations

import numpy as np
import scipy.linalg
from hypothesis import strategies as st

from pyoma2.algorithms import pLSCF
from pyoma2.functions import fdd, plscf
from pyoma2.setup import SingleSetup

from ..core import J, Sub, mac, raised, rng_of, sut

PROPERTY = "C05"
RULE = (
    "real polynomial matrices A (Nch x Nch, 2..5 channels) and B (1..5 x Nch) of order 1..8 with well-conditioned leading/trailing "
    "coefficients, Nf >= 4(n+1) lines, drawn dt, both basis signs; oracle = the known coefficients (normalised) and the latent roots from "
    "an independent generalised eigenproblem; non-trivial = order >= 2 and at least one root on each side of the stability boundary"
)
ASSUMPTIONS = [
    "denominator recovery judged only where an independent least-squares formulation (numpy lstsq on the stacked real system) is well conditioned (cond <= 3e4); tolerance 1e-12*cond^2 + 1e-8",
    "roots within 1e-9 (relative) of the stability boundary Re(log x) = 0 are not judged",
]


def _wellcond(rng, n, lo=0.3, hi=3.0):
    U, _ = np.linalg.qr(rng.normal(size=(n, n)))
    V, _ = np.linalg.qr(rng.normal(size=(n, n)))
    s = rng.uniform(lo, hi, size=n)
    return U @ np.diag(s) @ V.T


def _poly(case):
    rng = rng_of(case["seed"])
    n, nch, nref = case["n"], case["nch"], case["nref"]
    A = [rng.normal(size=(nch, nch)) * case["scale"] for _ in range(n + 1)]
    A[0] = _wellcond(rng, nch)
    A[n] = _wellcond(rng, nch)
    B = [rng.normal(size=(nref, nch)) for _ in range(n + 1)]
    return A, B


def _roots(A):
    """latent roots x of det(sum A_i x^i) = 0 and null vectors, via L0 v = x L1 v (no inversion of A_n)."""
    n = len(A) - 1
    m = A[0].shape[0]
    L0 = np.zeros((n * m, n * m))
    L1 = np.eye(n * m)
    for i in range(n - 1):
        L0[i * m : (i + 1) * m, (i + 1) * m : (i + 2) * m] = np.eye(m)
    for i in range(n):
        L0[(n - 1) * m :, i * m : (i + 1) * m] = -A[i]
    L1[(n - 1) * m :, (n - 1) * m :] = A[n]
    w, V = scipy.linalg.eig(L0, L1)
    return w, V[:m, :]  # eigenvector blocks [v; xv; ...]: first block is the null vector of A(x)


@st.composite
def poly_case(draw):
    n = draw(st.integers(1, 8))
    nch = draw(st.integers(2, 5))
    nref = draw(st.integers(1, 5))
    Nf = 4 * (n + 1) + draw(st.integers(0, 300))
    if draw(st.integers(0, 5)) == 0:  # long spectra (segment lengths up to 8192 are ordinary): kept small in the other dimensions
        Nf = draw(st.sampled_from([1025, 1500, 2049, 3000, 4097, 5000, 8193]))
        n, nch, nref = min(n, 3), min(nch, 3), min(nref, 2)
    return {"n": n, "nch": nch, "nref": nref, "sgn": draw(st.sampled_from([-1, 1])),
            "Nf": Nf, "dt": 10.0 ** draw(st.floats(-3, 1)), "extra_ord": draw(st.integers(0, 2)),
            "scale": draw(st.sampled_from([1.0, 0.3, 2.0])), "seed": draw(st.integers(0, 2**32 - 1)),
            "amp": 10.0 ** draw(st.sampled_from([0.0, 0.0, -2.0, -4.0, -5.0, -6.0, -8.0, 3.0]))}


def judge_denominator(case):
    j = J()
    n, nch, nref, sgn, Nf = case["n"], case["nch"], case["nref"], case["sgn"], case["Nf"]
    A, B = _poly(case)
    amp = float(case.get("amp", 1.0))  # overall level of the spectrum (ambient PSDs in SI units are small numbers)
    B = [b * amp for b in B]
    j.tag(f"n={n}", "LO" if sgn == -1 else "HI", "amp<1e-4" if amp < 1e-4 else "amp>=1e-4", "Nf>1024" if Nf > 1024 else "Nf<=1024")
    Om = np.exp(sgn * 1j * np.pi * np.arange(Nf) / (Nf - 1))
    Sy = np.empty((nref, nch, Nf), dtype=complex)
    for k, x in enumerate(Om):
        Ax = sum(A[i] * x**i for i in range(n + 1))
        Bx = sum(B[i] * x**i for i in range(n + 1))
        Sy[:, :, k] = Bx @ np.linalg.inv(Ax)
    # independent LS formulation for the conditioning guard
    ic = 0 if sgn == -1 else n  # constrained coefficient
    free = [i for i in range(n + 1) if i != ic]
    rows, rhs = [], []
    nA = len(free) * nch * nch
    nB = nref * (n + 1) * nch
    for o in range(nref):
        for k, x in enumerate(Om):
            H = Sy[o, :, k]  # (nch,)
            # unknown layout: alpha_i (nch x nch, row-major) for i in free ; beta_{o,i} (nch) ...
            for c in range(nch):  # column c of the 1 x nch equation: sum_i x^i beta[o,i,c] - sum_i x^i sum_r H[r] alpha_i[r,c] = x^ic H[c]
                row = np.zeros(nA + nB, dtype=complex)
                for fi, i in enumerate(free):
                    for r in range(nch):
                        row[fi * nch * nch + r * nch + c] = -(x**i) * H[r]
                for i in range(n + 1):
                    row[nA + (o * (n + 1) + i) * nch + c] = x**i
                rows.append(row)
                rhs.append((x**ic) * H[c])
    M = np.array(rows)
    b = np.array(rhs)
    Mr = np.vstack([M.real, M.imag])
    br = np.concatenate([b.real, b.imag])
    cn = np.linalg.norm(Mr, axis=0)
    sv = np.linalg.svd(Mr / np.where(cn > 0, cn, 1.0), compute_uv=False)  # column-equilibrated: independent of the spectrum's level
    cond = sv[0] / sv[-1] if sv[-1] > 0 else np.inf
    if not cond <= 3e4:
        j.skip("ls-cond>3e4")
        return j
    Ainv = np.linalg.inv(A[ic])
    truth = np.array([A[i] @ Ainv for i in range(n + 1)])
    j.nontrivial(n >= 2)
    ordmax = n + case["extra_ord"]
    out = sut(plscf.pLSCF, Sy.copy(), case["dt"], ordmax, sgn_basf=sgn)
    if raised(out) and ordmax > n and out.type == "LinAlgError":
        # above the true order the normal equations of exact data are singular by construction: not judged
        j.skip("over-order-singular")
        ordmax = n
        out = sut(plscf.pLSCF, Sy.copy(), case["dt"], ordmax, sgn_basf=sgn)
    if not j.check(not raised(out), "plscf-raises", lambda: f"{out!r}"):
        return j
    Ad, Bn = out
    if not j.check(len(Ad) == ordmax and len(Bn) == ordmax, "plscf-len", lambda: f"{len(Ad)} orders returned for ordmax {ordmax}"):
        return j
    got = np.asarray(Ad[n - 1])
    if not j.check(got.shape == (n + 1, nch, nch), "plscf-shape", lambda: f"{got.shape}"):
        return j
    tol = 1e-12 * cond**2 + 1e-8
    err = np.max(np.abs(got - truth)) / max(np.max(np.abs(truth)), 1.0)
    j.check(err <= tol, "denominator", lambda: f"order {n} denominator differs from A_i A_{ic}^-1: rel.err {err:.3e} tol {tol:.3e} (cond {cond:.2e}, sgn {sgn})")
    bt = np.array([B[i] @ Ainv for i in range(n + 1)])  # (n+1, nref, nch)
    gb = np.asarray(Bn[n - 1])
    if j.check(gb.shape == bt.shape, "numerator-shape", lambda: f"{gb.shape} vs {bt.shape}"):
        errb = np.max(np.abs(gb - bt)) / max(np.max(np.abs(bt)), amp)
        j.check(errb <= tol, "numerator", lambda: f"order {n} numerator differs from B_i A_{ic}^-1: rel.err {errb:.3e} tol {tol:.3e}")
    return j


@st.composite
def poles_case(draw):
    ordmax = draw(st.integers(1, 8))
    nch = draw(st.integers(2, 5))
    return {"ordmax": ordmax, "nch": nch, "nref": draw(st.integers(1, 5)), "dt": 10.0 ** draw(st.floats(-3, 1)),
            "scale": draw(st.sampled_from([1.0, 0.3, 2.0])), "seed": draw(st.integers(0, 2**32 - 1))}


def judge_poles(case):
    j = J()
    ordmax, nch, nref, dt = case["ordmax"], case["nch"], case["nref"], case["dt"]
    Ad, Bn, polys = [], [], []
    for n in range(1, ordmax + 1):
        A, B = _poly({"seed": case["seed"] + n, "n": n, "nch": nch, "nref": nref, "scale": case["scale"]})
        Ad.append(np.array(A))
        Bn.append(np.array(B))
        polys.append((A, B))
    j.tag(f"ordmax={ordmax}")
    out = sut(plscf.pLSCF_poles, [a.copy() for a in Ad], [b.copy() for b in Bn], dt, "per", 1024)
    if not j.check(not raised(out), "poles-raises", lambda: f"{out!r}"):
        return j
    Fn, Xi, Phi, Lam = [np.asarray(o) for o in out]
    R = Fn.shape[0] if Fn.ndim == 2 else -1
    if not j.check(R >= ordmax * nch and Fn.shape == (R, ordmax) and Xi.shape == (R, ordmax) and Lam.shape == (R, ordmax) and Phi.shape == (R, ordmax, nref),
                   "poles-shape", lambda: f"Fn{Fn.shape} Xi{Xi.shape} Lam{Lam.shape} Phi{Phi.shape} expected >= {ordmax*nch} rows, {ordmax} columns, {nref} outputs"):
        return j
    pat = np.isnan(Fn)
    j.check(np.array_equal(np.isnan(Xi), pat) and np.array_equal(np.isnan(Lam), pat) and bool(np.all(np.isnan(Phi) == pat[:, :, None])), "poles-pattern", "Fn, Xi, Lambda, Phi do not share one NaN pattern")
    both_sides = False
    for n in range(1, ordmax + 1):
        A, B = polys[n - 1]
        x, V = _roots(A)
        lam = np.log(x.astype(complex)) / dt
        near = np.abs(lam.real) <= 1e-9 * np.abs(lam)
        if near.any():
            j.skip("root-on-boundary")
            continue
        keep = lam.real <= 0
        if keep.any() and (~keep).any():
            both_sides = True
        col = n - 1
        got = Lam[:, col]
        fin = np.isfinite(got)
        if not j.check(int(fin.sum()) == int(keep.sum()), "poles-count", lambda: f"order {n}: {int(fin.sum())} poles reported, {int(keep.sum())} roots with non-positive real part (of {len(x)})"):
            continue
        # one-to-one matching
        exp = lam[keep]
        gi = np.nonzero(fin)[0]
        used = set()
        scale = np.max(np.abs(exp)) if exp.size else 1.0
        # conditioning of the roots: compare with the eigenvalue sensitivity via a second evaluation (roots of the monic form)
        for r in gi:
            d = np.abs(exp - got[r])
            for u in used:
                d[u] = np.inf
            k = int(np.argmin(d))
            used.add(k)
            tol = 1e-7 * scale
            if not j.check(d[k] <= tol, "poles-value", lambda: f"order {n}: reported pole {got[r]!r} has no matching root (nearest {exp[k]!r}, distance {d[k]:.3e})"):
                continue
            lam_k = exp[k]
            j.check(abs(Fn[r, col] - abs(lam_k) / (2 * np.pi)) <= 1e-7 * scale, "poles-fn", lambda: f"order {n}: fn {Fn[r, col]!r} vs |lambda|/2pi {abs(lam_k)/(2*np.pi)!r}")
            j.check(abs(Xi[r, col] - (-lam_k.real / abs(lam_k))) <= 1e-6, "poles-xi", lambda: f"order {n}: xi {Xi[r, col]!r} vs {-lam_k.real/abs(lam_k)!r}")
            # mode shape = B(x) v
            idx = np.nonzero(keep)[0][k]
            xv = x[idx]
            Bx = sum(B[i] * xv**i for i in range(n + 1))
            shape = Bx @ V[:, idx]
            # multiple/near-multiple roots: eigenvectors ill defined -> skip MAC there
            others = np.delete(x, idx)
            if others.size and np.min(np.abs(others - xv)) < 1e-4 * max(1.0, abs(xv)):
                j.skip("near-multiple-root")
                continue
            j.check(1 - mac(Phi[r, col, :], shape) <= 1e-6, "poles-shape-mac", lambda: f"order {n}: mode shape of pole {got[r]!r} has MAC {mac(Phi[r, col, :], shape):.6f} with B(x)v")
            pk = Phi[r, col, :]
            j.check(np.max(np.abs(pk)) <= 1 + 1e-9 and np.min(np.abs(pk - 1)) <= 1e-9, "poles-normalised", lambda: f"mode shape not unity-normalised: {pk.tolist()}")
    j.nontrivial(ordmax >= 2 and both_sides)
    return j


@st.composite
def wiring_case(draw):
    nx = draw(st.sampled_from([128, 256, 129, 255]))
    return {"nch": draw(st.integers(2, 4)), "N": draw(st.integers(1200, 2500)), "nxseg": nx,
            "method": draw(st.sampled_from(["per", "cor"])), "ordmax": draw(st.integers(2, 8)), "fs": draw(st.sampled_from([1.0, 50.0, 333.0])),
            "seed": draw(st.integers(0, 2**32 - 1)), "pov": 0.0 if nx % 2 else draw(st.sampled_from([0.5, 0.25]))}  # odd segment lengths: no overlap (integer nxseg*pov)


def judge_wiring(case):
    j = J()
    rng = rng_of(case["seed"])
    Y = np.cumsum(rng.normal(size=(case["N"], case["nch"])), axis=0) * 0.05 + rng.normal(size=(case["N"], case["nch"]))
    ss = SingleSetup(Y, fs=case["fs"])
    alg = pLSCF(name="a", ordmax=case["ordmax"], nxseg=case["nxseg"], method_SD=case["method"], pov=case["pov"],
                hc=dict(conj=False, xi_max=1.0, mpc_lim=0.0, mpd_lim=2.0))
    ss.add_algorithms(alg)
    r = sut(ss.run_by_name, "a")
    if not j.check(not raised(r), "wiring-run-raises", lambda: f"{r!r}"):
        return j
    j.tag(case["method"], "odd-nxseg" if case["nxseg"] % 2 else "even-nxseg")
    j.nontrivial(True)
    res = alg.result
    dt = 1.0 / case["fs"]
    ref = sut(fdd.SD_est, Y.T, Y.T, dt, case["nxseg"], method=case["method"], pov=case["pov"])
    if raised(ref):
        raise RuntimeError(f"{ref!r}")
    j.check(np.array_equal(np.asarray(res.Sy), np.asarray(ref[1])) and np.allclose(np.asarray(res.freq), np.asarray(ref[0])), "wiring-Sy", "result.Sy/freq differ from fdd.SD_est(data, data, dt, nxseg, method, pov)")
    sgn = -1 if case["method"] == "per" else 1
    ref2 = sut(plscf.pLSCF, np.asarray(res.Sy), dt, case["ordmax"], sgn_basf=sgn)
    if raised(ref2):
        raise RuntimeError(f"{ref2!r}")
    ok = len(res.Ad) == len(ref2[0]) and all(np.array_equal(a, b) for a, b in zip(res.Ad, ref2[0]))
    j.check(ok, "wiring-Ad", "result.Ad differs from plscf.pLSCF(result.Sy, dt, ordmax, sgn)")
    pol = sut(plscf.pLSCF_poles, ref2[0], ref2[1], dt, case["method"], case["nxseg"])
    if raised(pol):
        raise RuntimeError(f"{pol!r}")
    UF = np.asarray(pol[0], dtype=float)
    RF = np.asarray(res.Fn_poles, dtype=float)
    if j.check(RF.shape == UF.shape, "wiring-table-shape", lambda: f"{RF.shape} vs {UF.shape}"):
        fin = np.isfinite(RF)
        j.check(bool(np.all(RF[fin] == UF[fin])), "wiring-subset", "a retained pole differs from the unfiltered pole at the same cell")
        # neutral criteria: xi>0 & xi<1 only
        UX = np.asarray(pol[1], dtype=float)
        should = np.isfinite(UF) & (UX > 1e-12) & (UX < 1 - 1e-12)
        j.check(bool(np.all(fin[should])), "wiring-complete", "with neutral criteria a pole with 0 < xi < 1 was removed")
    return j


# ---------------------------------------------------------------------------
# poles placed by construction (including very lightly damped ones)
# ---------------------------------------------------------------------------
@st.composite
def placed_case(draw):
    n = draw(st.integers(1, 4))
    nch = draw(st.integers(2, 4))
    npairs = (n * nch) // 2
    # distinct frequencies as fractions of the Nyquist frequency, damping ratios log-uniform from 1e-8 to 0.3
    fr = draw(st.lists(st.integers(1, 94), min_size=npairs, max_size=npairs, unique=True))
    xi = [10.0 ** draw(st.sampled_from([-8.0, -7.0, -6.0, -5.0, -4.0, -3.0, -2.0, -1.0, -0.5])) * draw(st.floats(1.0, 3.0)) for _ in range(npairs)]
    return {"n": n, "nch": nch, "nref": draw(st.integers(1, 4)), "fr": [0.01 * f + 0.003 for f in fr], "xi": xi, "real_root": draw(st.floats(0.1, 0.9)) * draw(st.sampled_from([1, -1])),
            "dt": 10.0 ** draw(st.floats(-3, 1)), "seed": draw(st.integers(0, 2**32 - 1)),
            "dt_int": draw(st.sampled_from([None, None, None, "int2", "npint5", "int1"]))}  # a whole-number sampling interval given as an integer


def judge_placed(case):
    j = J()
    n, nch, nref, dt = case["n"], case["nch"], case["nref"], case["dt"]
    dt_arg = dt
    if case.get("dt_int"):
        dt_arg = {"int2": 2, "npint5": np.int64(5), "int1": 1}[case["dt_int"]]
        dt = float(dt_arg)
        j.tag("dt-integer-typed")
    rng = rng_of(case["seed"])
    roots, truth = [], []
    for f, x in zip(case["fr"], case["xi"]):
        w = f * np.pi / dt
        lam = complex(-x * w, w * np.sqrt(1 - x * x))
        roots += [np.exp(lam * dt), np.exp(np.conj(lam) * dt)]
        truth += [(lam, x), (np.conj(lam), x)]
    if len(roots) < n * nch:  # odd count: one real root
        z = case["real_root"]
        roots.append(complex(z))
        truth.append((np.log(complex(z)) / dt, None))
    order = rng.permutation(n * nch)
    # conjugate pairs must stay in one scalar polynomial: permute pairs, then deal n roots to each channel
    pairs = [[2 * q, 2 * q + 1] for q in range(len(case["fr"]))]
    single = [[len(roots) - 1]] if len(roots) % 2 else []
    groups = [[] for _ in range(nch)]
    for pr in [pairs[q] for q in rng.permutation(len(pairs))] + single:
        tgt = [g for g in groups if len(g) + len(pr) <= n]
        if not tgt:
            j.skip("roots-do-not-fit")  # odd n with only pairs left
            return j
        tgt[0].extend(pr)
    if any(len(g) != n for g in groups):
        j.skip("roots-do-not-fit")
        return j
    coef = np.array([np.real(np.poly([roots[q] for q in g]))[::-1] for g in groups])  # (nch, n+1), index = power
    T, _ = np.linalg.qr(rng.normal(size=(nch, nch)))
    A = np.array([T @ np.diag(coef[:, i]) @ T.T for i in range(n + 1)])
    B = rng.normal(size=(n + 1, nref, nch))
    out = sut(plscf.pLSCF_poles, [A.copy()], [B.copy()], dt_arg, "per", 1024)
    if not j.check(not raised(out), "placed-raises", lambda: f"{out!r}"):
        return j
    Fn, Xi, Lam = np.asarray(out[0])[:, 0], np.asarray(out[1])[:, 0], np.asarray(out[3])[:, 0]
    fin = np.isfinite(Fn)
    ximin = min(case["xi"])
    j.tag(f"n={n}", "xi_min<=1e-5" if ximin <= 1e-5 else "xi_min>1e-5")
    j.nontrivial(ximin <= 1e-4)
    if not j.check(int(fin.sum()) == n * nch, "placed-count", lambda: f"{int(fin.sum())} poles reported for {n * nch} roots inside the unit circle"):
        return j
    got = np.nonzero(fin)[0]
    used = set()
    # conditioning probe: how far an independent double-precision eigen-solution of the same polynomial lands from the placed roots
    mine, _ = _roots(list(A))
    for (lam, x), z in zip(truth, roots):
        probe = max(float(np.min(np.abs(mine - z))), 1e-16 * abs(z))
        tol = PLACED_K * probe / (abs(z) * dt)  # error of lambda = log(z)/dt for an error `probe` of z
        d = np.abs(Lam[got] - lam)
        for u in used:
            d[u] = np.inf
        k = int(np.argmin(d))
        used.add(k)
        r = got[k]
        if not j.check(d[k] <= tol, "placed-pole", lambda: f"root {lam!r}: nearest reported pole {Lam[r]!r} (tolerance {tol:.2e})"):
            continue
        j.check(abs(Fn[r] - abs(lam) / (2 * np.pi)) <= tol, "placed-fn", lambda: f"fn {Fn[r]!r} vs {abs(lam) / (2 * np.pi)!r}")
        xt = -lam.real / abs(lam)
        # xi = -Re(lambda)/|lambda|: an error of lambda passes to the damping ratio divided by |lambda|, whatever the size of xi
        j.check(abs(Xi[r] - xt) <= 2 * tol / abs(lam), "placed-xi", lambda: f"root with damping {xt!r}: reported {Xi[r]!r} (tolerance {2 * tol / abs(lam):.2e})")
    return j


PLACED_K = 1000.0


SUBS = [
    Sub("denominator", judge_denominator, poly_case(), quick=200, thorough=8000,
        rule="Sy = B(Omega)A(Omega)^-1 exactly: plscf.pLSCF at order n returns A_i A_0^-1 (sign -1) / A_i A_n^-1 (sign +1) and the matching numerator"),
    Sub("poles", judge_poles, poles_case(), quick=200, thorough=8000,
        rule="plscf.pLSCF_poles / rmfd2ac / ac2mp_poly on known coefficient lists: column n-1 holds exactly the latent roots with Re(log x/dt) <= 0, fn, xi, shape = B(x)v, all else NaN"),
    Sub("poles_placed", judge_placed, placed_case(), quick=300, thorough=6000,
        rule="A(z) = T diag(p_k(z)) T^T with scalar polynomials of chosen roots (damping ratios 1e-8..0.6): every root reported once, fn and xi to 1e-10 (absolute for xi)"),
    Sub("class_wiring", judge_wiring, wiring_case(), quick=40, thorough=1000,
        rule="pLSCF through SingleSetup: result.Sy = SD_est, result.Ad = plscf.pLSCF(result.Sy, ...), retained poles = unfiltered poles cell by cell"),
]
