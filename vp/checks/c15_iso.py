"""Isolated reference runs for C15: executed in a pristine interpreter (python -m vp.checks.c15_iso),
one process per (kind, class, seed), so that no class-level or module-level state of the library can
leak from the histories under test into the expected results (or the other way round)."""
import pickle
import sys


def main():
    kind, cls_key, seed, out = sys.argv[1], sys.argv[2], int(sys.argv[3]), sys.argv[4]
    from vp.checks import c15

    res = {}
    s = c15._new_setup(kind, seed)
    a = c15._new_alg(kind, cls_key, "fresh")
    s.add_algorithms(a)
    s.run_by_name("fresh")
    res["run"] = ("ok", c15.snapshot(a.result))
    mk = (c15.POOL_SINGLE if kind == "single" else c15.POOL_MS)[cls_key][2]
    try:
        s.mpe("fresh", sel_freq=list(c15.SEL), **mk)
        res["mpe"] = ("ok", c15.snapshot(a.result))
    except Exception as e:  # noqa: BLE001 - the isolated run's own outcome is the expectation
        res["mpe"] = ("raises", type(e).__name__)
    # the same with the alternative parameter set given to the constructor (never through a setter)
    s2 = c15._new_setup(kind, seed)
    b = c15._new_alg(kind, cls_key, "fresh", alt=True)
    s2.add_algorithms(b)
    s2.run_by_name("fresh")
    res["run_alt"] = ("ok", c15.snapshot(b.result))
    try:
        s2.mpe("fresh", sel_freq=list(c15.SEL), **mk)
        res["mpe_alt"] = ("ok", c15.snapshot(b.result))
    except Exception as e:  # noqa: BLE001
        res["mpe_alt"] = ("raises", type(e).__name__)
    with open(out, "wb") as f:
        pickle.dump(res, f)


if __name__ == "__main__":
    main()
