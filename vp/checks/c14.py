"""C14 - preprocessing composes, metadata stays truthful, rollback restores the start.

Model-based testing of operation histories: the model is the same scipy pipeline applied by the harness."""
from __future__ import annotations

import itertools

import numpy as np
from hypothesis import strategies as st
from scipy import signal

from pyoma2.algorithms import FDD, FDD_MS
from pyoma2.setup import MultiSetup_PreGER, SingleSetup

from ..core import J, Sub, raised, rng_of, sut

PROPERTY = "C14"
RULE = (
    "histories over {decimate(q, ftype/n/zero_phase), detrend(type, bp), filter(Wn, order, btype), rollback, add_algorithms} on SingleSetup and "
    "MultiSetup_PreGER (1..3 datasets of 2..5 channels, any reference layout): all sequences up to length 3 (quick) / 4 (thorough) over a 11-symbol "
    "alphabet enumerated, longer ones generated; model = scipy.signal.decimate/detrend/butter+sosfiltfilt applied in sequence; after every step "
    "data, fs, dt, sample counts, durations and the array bound to a freshly added algorithm are compared; "
    "non-trivial = >= 2 data-changing operations or a rollback after a change"
)
ASSUMPTIONS = [
    "data compared to 1e-12 relative (identical scipy calls); a step scipy itself rejects in the model (record too short) ends the history for both sides",
    "documented keywords = those named in the library's docstrings: decimate n/ftype/zero_phase, detrend type/bp, filter Wn/order/btype, plus scipy's axis=0 (the only admissible value)",
    "rollback also empties the setup's algorithm dictionary (not part of the property, not judged)",
]

FS0 = 100.0

ALPHABET = [
    {"op": "decimate", "q": 2},
    {"op": "decimate", "q": 3},
    {"op": "decimate", "q": 2, "kw": {"ftype": "fir", "n": 8, "zero_phase": False, "axis": 0}},
    {"op": "detrend", "kw": {"type": "linear"}},
    {"op": "detrend", "kw": {"type": "constant", "bp": 100, "axis": 0}},
    {"op": "detrend", "kw": {"type": "constant"}},
    {"op": "filter", "wn": [0.4], "order": 8, "btype": "lowpass", "default_order": True},
    {"op": "filter", "wn": [0.2, 0.6], "order": 4, "btype": "bandpass"},
    {"op": "filter", "hz": [4.0], "order": 4, "btype": "lowpass"},  # identical specification in Hz before and after a change of rate
    {"op": "rollback"},
    {"op": "add"},
]


def _datasets(case):
    rng = rng_of(case["seed"])
    out = []
    for n in case["chans"]:
        N = case["N"]
        t = np.arange(N)[:, None]
        y = rng.normal(size=(N, n)) + 0.01 * t * rng.normal(size=(1, n)) + 3.0 * rng.normal(size=(1, n)) + np.sin(0.05 * t * (1 + np.arange(n))[None, :])
        out.append(y * float(case.get("scale", 1.0)))
    return out


def _split(d, refs):
    mov = [c for c in range(d.shape[1]) if c not in refs]
    return d[:, refs].T, d[:, mov].T


def _model_step(cur, fs, op):
    """apply op to every dataset with scipy; returns (new list, new fs) or raises (scipy rejects)"""
    if op["op"] == "decimate":
        new = [signal.decimate(d, op["q"], axis=0, **{k_: v_ for k_, v_ in op.get("kw", {}).items() if k_ != "axis"}) for d in cur]  # samples run along axis 0: the only value 'axis' can take
        return new, fs / op["q"]
    if op["op"] == "detrend":
        return [signal.detrend(d, axis=0, **{k_: v_ for k_, v_ in op.get("kw", {}).items() if k_ != "axis"}) for d in cur], fs
    if op["op"] == "filter":
        wn = list(op["hz"]) if "hz" in op else [w * fs / 2 for w in op["wn"]]  # "hz": the same cut-off in Hz whatever the current rate
        wn = wn[0] if len(wn) == 1 else wn
        sos = signal.butter(op["order"], wn, btype=op["btype"], output="sos", fs=fs)
        return [signal.sosfiltfilt(sos, d, axis=0) for d in cur], fs
    raise ValueError(op)


def _apply_sut(setup, op, fs_model):
    if op["op"] == "decimate":
        return sut(setup.decimate_data, q=op["q"], **op.get("kw", {}))
    if op["op"] == "detrend":
        return sut(setup.detrend_data, **op.get("kw", {}))
    if op["op"] == "filter":
        wn = list(op["hz"]) if "hz" in op else [w * fs_model / 2 for w in op["wn"]]
        wn = wn[0] if len(wn) == 1 else tuple(wn)
        if op.get("default_order"):
            return sut(setup.filter_data, Wn=wn, btype=op["btype"])
        return sut(setup.filter_data, Wn=wn, order=op["order"], btype=op["btype"])
    if op["op"] == "rollback":
        return sut(setup.rollback)
    raise ValueError(op)


def _close(a, b):
    a, b = np.asarray(a), np.asarray(b)
    if a.shape != b.shape:
        return False
    if a.size == 0:
        return True
    return bool(np.max(np.abs(a - b)) <= 1e-12 * max(np.max(np.abs(b)), 1e-300))


def judge_history(case):
    j = J()
    kind = case["kind"]
    user = _datasets(case)
    pristine = [d.copy() for d in user]
    refl = case.get("refs")
    if kind == "single":
        setup = sut(lambda: SingleSetup(user[0], fs=FS0))
    else:
        setup = sut(lambda: MultiSetup_PreGER(fs=FS0, ref_ind=[list(r) for r in refl], datasets=user))
    if not j.check(not raised(setup), "ctor-raises", lambda: f"{setup!r}"):
        return j
    cur = [d.copy() for d in pristine]
    fs = FS0
    nchange = 0
    rollback_after_change = False
    changed_since_start = False
    nadd = 0
    j.tag(kind)

    def compare(step, opname):
        tag = f"{kind}"
        if kind == "single":
            d = cur[0]
            j.check(_close(setup.data, d), f"{tag}-data", lambda: f"after step {step} ({opname}): setup.data differs from the scipy pipeline (shape {np.asarray(setup.data).shape} vs {d.shape})")
            j.check(setup.fs == fs or abs(setup.fs - fs) <= 1e-12 * fs, f"{tag}-fs", lambda: f"after step {step} ({opname}): fs={setup.fs!r}, expected {fs!r}")
            j.check(abs(setup.dt - 1 / fs) <= 1e-12 / fs, f"{tag}-dt", lambda: f"after step {step} ({opname}): dt={setup.dt!r}, expected {1/fs!r}")
            j.check(setup.Ndat == d.shape[0], f"{tag}-Ndat", lambda: f"after step {step} ({opname}): Ndat={setup.Ndat!r}, data has {d.shape[0]} samples")
            j.check(abs(setup.T - d.shape[0] / fs) <= 1e-9 * d.shape[0] / fs, f"{tag}-T", lambda: f"after step {step} ({opname}): T={setup.T!r}, expected samples*dt={d.shape[0]/fs!r}")
            j.check(setup.Nch == d.shape[1], f"{tag}-Nch", lambda: f"Nch={setup.Nch!r}")
            j.check(np.array_equal(setup._initial_data, pristine[0]), f"{tag}-initial-copy", lambda: f"after step {step} ({opname}): stored initial copy modified")
        else:
            ok = isinstance(setup.data, list) and len(setup.data) == len(cur)
            if j.check(ok, f"{tag}-data-len", lambda: f"after step {step} ({opname}): {type(setup.data)}"):
                for i, (d, r) in enumerate(zip(cur, refl)):
                    er, em = _split(d, list(r))
                    j.check(_close(setup.data[i]["ref"], er) and _close(setup.data[i]["mov"], em), f"{tag}-data",
                            lambda: f"after step {step} ({opname}): dataset {i}: data differs from split(scipy pipeline) (ref shape {np.asarray(setup.data[i]['ref']).shape} vs {er.shape})")
            j.check(abs(setup.fs - fs) <= 1e-12 * fs, f"{tag}-fs", lambda: f"after step {step} ({opname}): fs={setup.fs!r}, expected {fs!r}")
            j.check(abs(setup.dt - 1 / fs) <= 1e-12 / fs, f"{tag}-dt", lambda: f"after step {step} ({opname}): dt={setup.dt!r}, expected {1/fs!r}")
            j.check(list(setup.Ndats) == [d.shape[0] for d in cur], f"{tag}-Ndats", lambda: f"after step {step} ({opname}): Ndats={setup.Ndats!r}, expected {[d.shape[0] for d in cur]}")
            exp_T = [d.shape[0] / fs for d in cur]
            j.check(len(setup.Ts) == len(exp_T) and all(abs(a - b) <= 1e-9 * b for a, b in zip(setup.Ts, exp_T)), f"{tag}-Ts", lambda: f"after step {step} ({opname}): Ts={setup.Ts!r}, expected {exp_T}")
            j.check(all(np.array_equal(a, b) for a, b in zip(setup._initial_datasets, pristine)), f"{tag}-initial-copy", lambda: f"after step {step} ({opname}): stored initial copy modified")
        j.check(all(np.array_equal(a, b) for a, b in zip(user, pristine)), f"{tag}-user-arrays", lambda: f"after step {step} ({opname}): the arrays passed in by the user were modified")

    first_alg = [None]

    def _check_bound(alg, step):
        if kind == "single":
            j.check(_close(alg.data, cur[0]), f"{kind}-alg-data", lambda: f"step {step}: data bound to algorithm {alg.name} differs from the scipy pipeline")
        else:
            okd = isinstance(alg.data, list) and len(alg.data) == len(cur) and all(
                _close(alg.data[i]["ref"], _split(d, list(r_))[0]) and _close(alg.data[i]["mov"], _split(d, list(r_))[1]) for i, (d, r_) in enumerate(zip(cur, refl)))
            j.check(okd, f"{kind}-alg-data", lambda: f"step {step}: data bound to algorithm {alg.name} differs from split(scipy pipeline)")
        j.check(abs(alg.fs - fs) <= 1e-12 * fs and abs(alg.dt - 1 / fs) <= 1e-12 / fs, f"{kind}-alg-fs", lambda: f"step {step}: algorithm {alg.name} fs={alg.fs!r} dt={alg.dt!r}, expected {fs!r}, {1/fs!r}")

    compare(0, "init")
    for step, op in enumerate(case["ops"], start=1):
        name = op["op"]
        if name == "add":
            nadd += 1
            alg = (FDD if kind == "single" else FDD_MS)(name=f"alg{nadd}", nxseg=64)
            r = sut(setup.add_algorithms, alg)
            if not j.check(not raised(r), f"{kind}-add-raises", lambda: f"{r!r}"):
                return j
            targets = [alg]
            if first_alg[0] is None:
                first_alg[0] = alg
                _ = (alg.fs, alg.dt)
            else:
                # adding an algorithm that was added before re-binds it to the current data
                r = sut(setup.add_algorithms, first_alg[0])
                if j.check(not raised(r), f"{kind}-readd-raises", lambda: f"{r!r}"):
                    targets.append(first_alg[0])
            for alg in targets:
                _check_bound(alg, step)
            continue
        if name == "rollback":
            if changed_since_start:
                rollback_after_change = True
            cur = [d.copy() for d in pristine]
            fs = FS0
            changed_since_start = False
            r = _apply_sut(setup, op, fs)
            if not j.check(not raised(r), f"{kind}-rollback-raises", lambda: f"{r!r}"):
                return j
            compare(step, "rollback")
            continue
        try:
            new, nfs = _model_step(cur, fs, op)
        except Exception:  # noqa: BLE001 - scipy rejects the step in the model: history ends here for both sides
            j.skip("scipy-rejects-step")
            break
        r = _apply_sut(setup, op, fs)
        if not j.check(not raised(r), f"{kind}-{name}-raises", lambda: f"step {step}: {name}({ {k: v for k, v in op.items() if k != 'op'} }) raised {r!r}"):
            return j
        cur, fs = new, nfs
        nchange += 1
        changed_since_start = True
        compare(step, name)
    j.nontrivial(nchange >= 2 or rollback_after_change)
    return j


# ---------------------------------------------------------------------------
# enumeration
# ---------------------------------------------------------------------------
def _enum(kind):
    def f(tier):
        L = 3 if tier == "quick" else 4
        cases = []
        for n in range(1, L + 1):
            for seq in itertools.product(range(len(ALPHABET)), repeat=n):
                c = {"kind": kind, "ops": [ALPHABET[i] for i in seq], "seed": 12345 + len(cases) % 7, "N": 600}
                if kind == "single":
                    c["chans"] = [3]
                else:
                    c["chans"] = [3, 4]
                    c["refs"] = [[2, 0], [1, 3]]
                cases.append(c)
        return cases, True

    return f


# ---------------------------------------------------------------------------
# generated histories
# ---------------------------------------------------------------------------
@st.composite
def op_strategy(draw):
    name = draw(st.sampled_from(["decimate", "decimate", "detrend", "filter", "filter", "rollback", "add"]))
    if name == "decimate":
        op = {"op": "decimate", "q": draw(st.integers(2, 5))}
        kw = {}
        if draw(st.booleans()):
            kw["ftype"] = draw(st.sampled_from(["iir", "fir"]))
        if draw(st.booleans()):
            kw["n"] = draw(st.integers(2, 12))
        if draw(st.booleans()):
            kw["zero_phase"] = draw(st.booleans())
        if draw(st.integers(0, 3)) == 0:
            kw["axis"] = 0
        if kw:
            op["kw"] = kw
        return op
    if name == "detrend":
        kw = {}
        if draw(st.booleans()):
            kw["type"] = draw(st.sampled_from(["linear", "constant"]))
        if draw(st.booleans()):
            kw["bp"] = draw(st.one_of(st.integers(1, 60), st.lists(st.integers(1, 60), min_size=1, max_size=3, unique=True).map(sorted)))
        if draw(st.integers(0, 3)) == 0:
            kw["axis"] = 0
        return {"op": "detrend", "kw": kw}
    if name == "filter":
        bt = draw(st.sampled_from(["lowpass", "highpass", "bandpass", "bandstop"]))
        if draw(st.integers(0, 2)) == 0:  # a few fixed specifications in Hz, so that the same one recurs at different rates
            hz = draw(st.sampled_from([[2.0], [4.0], [7.5]])) if bt in ("lowpass", "highpass") else draw(st.sampled_from([[1.0, 4.0], [2.0, 7.5]]))
            return {"op": "filter", "hz": hz, "order": draw(st.sampled_from([2, 4])), "btype": bt}
        if bt in ("lowpass", "highpass"):
            wn = [draw(st.floats(0.05, 0.9))]
        else:
            a = draw(st.floats(0.05, 0.6))
            wn = [a, a + draw(st.floats(0.1, 0.3))]
        return {"op": "filter", "wn": wn, "order": draw(st.integers(1, 8)), "btype": bt}
    return {"op": name}


@st.composite
def history_case(draw, kind, max_steps):
    ops = draw(st.lists(op_strategy(), min_size=1, max_size=max_steps))
    c = {"kind": kind, "ops": ops, "seed": draw(st.integers(0, 2**32 - 1)), "N": draw(st.integers(300, 1200)),
         "scale": draw(st.sampled_from([1.0, 1.0, 1e-3, 1e-6, 1e-10, 1e-12, 1e4]))}  # record level (e.g. m/s^2 vs micro-g)
    if kind == "single":
        c["chans"] = [draw(st.integers(2, 5))]
    else:
        ns = draw(st.integers(1, 3))
        k = draw(st.integers(1, 2))
        chans, refs = [], []
        for _ in range(ns):
            n = draw(st.integers(max(2, k), 5))
            chans.append(n)
            refs.append(draw(st.lists(st.integers(0, n - 1), min_size=k, max_size=k, unique=True)))
        c["chans"], c["refs"] = chans, refs
    return c


SUBS = [
    Sub("enumerate_single", judge_history, enum=_enum("single"), shards_quick=16, shards_thorough=16,
        rule="SingleSetup: every operation sequence up to length 3 (quick) / 4 (thorough) over the 11-symbol alphabet against the scipy model"),
    Sub("enumerate_preger", judge_history, enum=_enum("preger"), shards_quick=16, shards_thorough=16,
        rule="MultiSetup_PreGER (two datasets, references [2,0] and [1,3]): every sequence up to length 3 / 4 against the scipy model + own split"),
    Sub("machine_single", judge_history, history_case("single", 6), quick=500, thorough=30000,
        rule="SingleSetup: generated histories of up to 6 operations with drawn parameters (q 2..5, ftype/n/zero_phase, detrend type/bp, Wn, order 1..8, all btypes)"),
    Sub("machine_preger", judge_history, history_case("preger", 6), quick=500, thorough=30000,
        rule="MultiSetup_PreGER with 1..3 datasets of 2..5 channels and drawn reference layouts: generated histories of up to 6 operations"),
]


# ---------------------------------------------------------------------------
# known finding: SingleSetup.T after decimate_data (pinned by a stable test)
# ---------------------------------------------------------------------------
def _single_T(case, label, msg):
    """SingleSetup only, label single-T only, and the reported T must be exactly the true duration
    divided by the factor of the most recent decimation (the library's formula Ndat*dt/q)."""
    import re

    if label != "single-T" or case.get("kind") != "single":
        return False
    m = re.search(r"after step (\d+) .*T=([-+0-9.eE]+), expected samples\*dt=([-+0-9.eE]+)", msg)
    if not m:
        return False
    step, got, exp = int(m.group(1)), float(m.group(2)), float(m.group(3))
    qlast = None
    for op in case["ops"][:step]:
        if op["op"] == "decimate":
            qlast = op["q"]
        elif op["op"] == "rollback":
            qlast = None
    return qlast is not None and abs(got * qlast - exp) <= 1e-9 * exp


KNOWN = {"single_T_after_decimate": _single_T}
