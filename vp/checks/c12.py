"""C12 - the SSI Hankel/Toeplitz matrix has the prescribed lag, channel and block layout."""
from __future__ import annotations

import numpy as np
from hypothesis import strategies as st

from pyoma2.functions import ssi

from ..core import relayout, J, Sub, raised, rng_of, sut

PROPERTY = "C12"
RULE = (
    "impulse basis: every pair (e_a delta_t1, e_b delta_t2) for the listed shapes (exhaustive); random data for bilinearity, "
    "the lagged-sum definition and the projection identity; non-trivial = more than one channel or reference, or br >= 2"
)
ASSUMPTIONS = [
    "an entry's weight w must be uniform over its products and satisfy |1/w - (number of products)| <= 2 (1/N vs 1/(N-1) style normalisations are both 'sample cross-correlations')",
    "the number of averaged products may fall short of all possible ones by at most 2*br+2",
]


def lag_of(method, br, i, jj):
    return i + jj + 1 if method == "cov_mm" else br + i - jj


# ---------------------------------------------------------------------------
# exhaustive impulse basis
# ---------------------------------------------------------------------------
def enum_impulse(tier):
    cases = []
    if tier == "quick":
        ls, brs = (1, 2, 3, 4), (1, 2, 3, 4)
        nd = lambda br: sorted({2 * br + 3, 2 * br + 4, 12, 16, 21})  # noqa: E731
    else:
        ls, brs = (1, 2, 3, 4), (1, 2, 3, 4, 5)
        nd = lambda br: list(range(2 * br + 3, 41))  # noqa: E731
    for method in ("cov_mm", "cov_R"):
        for l in ls:
            for r in range(1, l + 1):
                for br in brs:
                    for n in nd(br):
                        if n >= 2 * br + 3:
                            cases.append({"method": method, "l": l, "r": r, "br": br, "Ndat": n})
    return cases, True


def judge_impulse(case):
    j = J()
    method, l, r, br, n = case["method"], case["l"], case["r"], case["br"], case["Ndat"]
    p, q = br, br + 1
    j.tag(method, f"l={l}", f"br={br}")
    j.nontrivial(l > 1 or r > 1 or br >= 2)
    lags = np.array([[lag_of(method, br, i, jj) for jj in range(q)] for i in range(p + 1)])
    # vals[i, jj, t2] for each (a, b): weight found at t1 = t2 + s*lag ; sign votes
    sign_votes = set()
    vals = np.zeros((l, r, p + 1, q, n))
    seen = np.zeros((l, r, p + 1, q, n), dtype=bool)
    for a in range(l):
        for b in range(r):
            for t1 in range(n):
                Y = np.zeros((l, n))
                Y[a, t1] = 1.0
                for t2 in range(n):
                    Yr = np.zeros((r, n))
                    Yr[b, t2] = 1.0
                    H = sut(ssi.build_hank, Y, Yr, br, method)
                    if raised(H):
                        j.fail("impulse-raises", f"{H!r}")
                        return j
                    H = np.asarray(H[0])
                    if H.shape != ((p + 1) * l, q * r):
                        j.fail("impulse-shape", f"shape {H.shape}, expected {((p+1)*l, q*r)}")
                        return j
                    Hr = H.reshape(p + 1, l, q, r)
                    M = Hr[:, a, :, b]
                    nz_all = np.count_nonzero(Hr)
                    nz = np.count_nonzero(M)
                    if nz_all != nz:
                        j.fail("impulse-channel", f"impulse in channel {a}/reference {b} (t1={t1},t2={t2}) produced non-zero entries for another channel/reference pair")
                        return j
                    if nz == 0:
                        continue
                    d = t1 - t2
                    ii, jjs = np.nonzero(M)
                    for i, jj in zip(ii, jjs):
                        lg = lags[i, jj]
                        if abs(d) != lg:
                            j.fail("impulse-lag", f"block ({i},{jj}) responds to t1-t2={d}, prescribed lag {lg} [{method}, br={br}]")
                            return j
                        if lg != 0:
                            sign_votes.add(1 if d > 0 else -1)
                        vals[a, b, i, jj, t2] = M[i, jj]
                        seen[a, b, i, jj, t2] = True
    if not j.check(len(sign_votes) <= 1, "impulse-sign", lambda: f"lag sign differs between blocks: {sign_votes}"):
        return j
    # per entry: uniform weights, contiguous run, coverage, normalisation
    for a in range(l):
        for b in range(r):
            for i in range(p + 1):
                for jj in range(q):
                    lg = lags[i, jj]
                    possible = n - lg
                    idx = np.nonzero(seen[a, b, i, jj])[0]
                    cnt = len(idx)
                    if not j.check(cnt >= 1 and cnt >= possible - (2 * br + 2), "impulse-coverage", lambda: f"entry ({i},{a};{jj},{b}) averages {cnt} of {possible} possible products"):
                        return j
                    j.check(idx[-1] - idx[0] + 1 == cnt, "impulse-contiguous", lambda: f"entry ({i},{a};{jj},{b}): products at t2={idx.tolist()} not one contiguous run")
                    w = vals[a, b, i, jj, idx]
                    j.check(np.all(w > 0) and np.max(w) - np.min(w) <= 1e-12 * np.max(w), "impulse-uniform", lambda: f"entry ({i},{a};{jj},{b}): weights {w.tolist()} not uniform")
                    j.check(abs(1.0 / w[0] - cnt) <= 2.0 + 1e-9, "impulse-normalisation", lambda: f"entry ({i},{a};{jj},{b}): weight {w[0]!r} for {cnt} products")
    return j


# ---------------------------------------------------------------------------
# bilinearity (covariance methods)
# ---------------------------------------------------------------------------
@st.composite
def shape_case(draw, lmax=6, brmax=8, extra=200, methods=("cov_mm", "cov_R")):
    l = draw(st.integers(1, lmax))
    r = draw(st.integers(1, l))
    br = draw(st.integers(1, brmax))
    n = 4 * br + 12 + draw(st.integers(0, extra))
    if draw(st.integers(0, 9)) == 0:
        # many block rows on a record of a few thousand samples (the normal use), lengths at and just below powers of two included
        br = draw(st.sampled_from([32, 40, 60]))
        n = draw(st.sampled_from([2048, 4096, 4090, 3000]))
        l, r = min(l, 2), min(r, 2)
    return {"method": draw(st.sampled_from(methods)), "l": l, "r": r, "br": br, "Ndat": n,
            "seed": draw(st.integers(0, 2**32 - 1)), "alpha": draw(st.floats(-3, 3)), "beta": draw(st.floats(-3, 3)),
            "layout": draw(st.sampled_from(["C", "C", "F", "colslice", "rowstep", "neg"])),  # memory layout of the record handed in
            "dtype": draw(st.sampled_from(["float64", "float64", "float64", "int16", "int32", "int64"])),  # integer records = raw ADC counts
            "refperm": draw(st.integers(0, 2**16)),
            "unc_nb": draw(st.sampled_from([None, None, 2, 3, 7, 10]))}  # also ask for the covariance factor (moment-matrix method): the matrix itself must not change


def judge_bilinear(case):
    j = J()
    method, l, r, br, n = case["method"], case["l"], case["r"], case["br"], case["Ndat"]
    j.tag(method)
    j.nontrivial(l > 1 or br >= 2)
    rng = rng_of(case["seed"])
    Y1, Y2 = rng.normal(size=(l, n)), rng.normal(size=(l, n))
    R1, R2 = rng.normal(size=(r, n)), rng.normal(size=(r, n))
    al, be = case["alpha"], case["beta"]
    f = lambda Y, R: sut(ssi.build_hank, Y, R, br, method)  # noqa: E731
    outs = [f(Y1, R1), f(Y2, R1), f(al * Y1 + be * Y2, R1), f(Y1, R2), f(Y1, al * R1 + be * R2)]
    if not j.check(not any(raised(o) for o in outs), "bilinear-raises", lambda: f"{outs}"):
        return j
    H11, H21, Hc1, H12, H1c = [np.asarray(o[0]) for o in outs]
    sc = max(np.max(np.abs(H11)), np.max(np.abs(H21)), np.max(np.abs(H12)), 1e-300) * (abs(al) + abs(be) + 1)
    j.check(np.max(np.abs(Hc1 - (al * H11 + be * H21))) <= 1e-12 * sc, "bilinear-data", lambda: f"err={np.max(np.abs(Hc1 - (al * H11 + be * H21))):.3e}")
    j.check(np.max(np.abs(H1c - (al * H11 + be * H12))) <= 1e-12 * sc, "bilinear-ref", lambda: f"err={np.max(np.abs(H1c - (al * H11 + be * H12))):.3e}")
    return j


# ---------------------------------------------------------------------------
# definition: plain lagged cross-correlation sums on zero-padded records
# ---------------------------------------------------------------------------
def _padded(rng, rows, n, pad):
    Y = np.zeros((rows, n))
    Y[:, pad : n - pad] = rng.normal(size=(rows, n - 2 * pad))
    return Y


def judge_definition(case):
    j = J()
    method, l, r, br, n = case["method"], case["l"], case["r"], case["br"], case["Ndat"]
    p, q = br, br + 1
    pad = 2 * (br + 1) + 3
    n = max(n, 2 * pad + 2 * (2 * br + 2) + 8)
    j.tag(method)
    j.nontrivial(l > 1 or r > 1)
    rng = rng_of(case["seed"])
    Y, R = _padded(rng, l, n, pad), _padded(rng, r, n, pad)
    dt_ = case.get("dtype", "float64")
    if dt_ != "float64":
        # whole-number records with counts that fill the integer type; the truth below is computed from the same values in double precision
        amp = {"int16": 7e3, "int32": 5e5, "int64": 3e6}[dt_]
        lim = 0.97 * np.iinfo(dt_).max
        Y, R = np.clip(np.rint(Y * amp), -lim, lim), np.clip(np.rint(R * amp), -lim, lim)
        Y, R = np.rint(Y), np.rint(R)
    j.tag("layout=" + case.get("layout", "C"), dt_)
    Yin, Rin = relayout(Y.astype(dt_), case.get("layout", "C")), relayout(R.astype(dt_), case.get("layout", "C"))
    Yk, Rk = Yin.copy(), Rin.copy()
    ukw = {}
    if method == "cov_mm" and case.get("unc_nb"):
        ukw = dict(calc_unc=True, nb=int(case["unc_nb"]))
        j.tag("with-covariance-factor")
    out = sut(ssi.build_hank, Yin, Rin, br, method, **ukw)
    if not j.check(not raised(out), "definition-raises", lambda: f"{out!r}"):
        return j
    j.check(np.array_equal(Yin, Yk) and np.array_equal(Rin, Rk), "definition-mutates-input", "build_hank modified the records it was given")
    H = np.asarray(out[0])
    if not j.check(H.shape == ((p + 1) * l, q * r), "definition-shape", lambda: f"{H.shape}"):
        return j
    Hr = H.reshape(p + 1, l, q, r)
    s = 1 if method == "cov_mm" else -1
    for i in range(p + 1):
        for jj in range(q):
            lg = lag_of(method, br, i, jj)
            d = s * lg  # t1 - t2
            # S[a,b] = sum_t Y[a, t + d] * R[b, t]
            if d >= 0:
                S = Y[:, d:] @ R[:, : n - d].T
            else:
                S = Y[:, : n + d] @ R[:, -d:].T
            blk = Hr[i, :, jj, :]
            D = (n - 2 * br - 1) if method == "cov_mm" else (n - lg)
            if not np.max(np.abs(S)) > 0:
                j.skip('definition-zero-sum')
                continue
            big = np.abs(S) > 1e-3 * np.max(np.abs(S))
            w = blk[big] / S[big]
            ok = np.all(np.abs(1.0 / w - D) <= 2.0 + 1e-6) and (np.max(w) - np.min(w) <= 1e-9 * np.max(np.abs(w)))
            if not j.check(ok, "definition-value", lambda: f"block ({i},{jj}) lag {lg}: H/S = {w.ravel()[:4].tolist()}, expected about 1/{D}"):
                return j
            j.check(np.allclose(blk, S * np.mean(w), rtol=1e-9, atol=1e-12 * np.max(np.abs(S)) * abs(np.mean(w))), "definition-small-entries", lambda: f"block ({i},{jj}) differs from the lagged sum")
    return j


def judge_definition_offset(case):
    """records that are not zero at their ends and carry an offset (every lagged product has the same sign and size): a
    block must equal the mean of the lagged products up to the three products a different end convention could add or
    drop - a rigorous bound, 3 max|y| max|r| / D - whereas products of the record's end with its beginning (a circular
    correlation) or weights that are not uniform lie far outside it"""
    j = J()
    method, l, r, br, n = case["method"], case["l"], case["r"], case["br"], case["Ndat"]
    p, q = br, br + 1
    n = max(n, 6 * (br + 1) + 20)
    j.tag(method, "br>=32" if br >= 32 else "br<32")
    j.nontrivial(l > 1 or r > 1 or br >= 32)
    rng = rng_of(case["seed"])
    Y = 5.0 + rng.normal(size=(l, n))
    R = -4.0 + rng.normal(size=(r, n))
    out = sut(ssi.build_hank, Y.copy(), R.copy(), br, method)
    if not j.check(not raised(out), "offset-raises", lambda: f"{out!r}"):
        return j
    H = np.asarray(out[0])
    if not j.check(H.shape == ((p + 1) * l, q * r), "offset-shape", lambda: f"{H.shape}"):
        return j
    Hr = H.reshape(p + 1, l, q, r)
    s_ = 1 if method == "cov_mm" else -1
    bound = 3.0 * np.max(np.abs(Y)) * np.max(np.abs(R))
    worst = 0.0
    for i in range(p + 1):
        for jj in range(q):
            lg = lag_of(method, br, i, jj)
            d = s_ * lg
            S = Y[:, d:] @ R[:, : n - d].T if d >= 0 else Y[:, : n + d] @ R[:, -d:].T
            D = (n - 2 * br - 1) if method == "cov_mm" else (n - lg)
            # cov_mm averages N = n-2br-1 products out of the n-lag available ones: compare with the mean product instead of the full sum
            mean_prod = S / (n - lg)
            dev = np.max(np.abs(Hr[i, :, jj, :] - mean_prod))
            # the n-lag available products differ from the D averaged ones by at most 2br+1 products, all within [min, max] of the
            # offset data: the mean over either set differs by at most (spread of the products)
            spread = (np.max(np.abs(Y)) * np.max(np.abs(R)) - np.min(np.abs(Y)) * np.min(np.abs(R))) * (abs((n - lg) - D) / max(D, 1))
            worst = max(worst, dev / (bound / D + spread))
    j.check(worst <= 1.0, "offset-value", lambda: f"a block differs from the mean lagged product by {worst:.2f} x the largest difference an end convention can make")
    return j


# ---------------------------------------------------------------------------
# data-driven: projection identity
# ---------------------------------------------------------------------------
def judge_projection(case):
    j = J()
    l, r, br, n = case["l"], case["r"], case["br"], case["Ndat"]
    p, q = br, br + 1
    n = max(n, 6 * (br + 1) * (l + r) + 2 * br + 4)
    if case["seed"] % 5 == 0:
        n = 4200 + case["seed"] % 5000  # long records (thousands of samples are the normal use)
    j.tag("dat", "long" if n > 4000 else "short")
    j.nontrivial(l > 1 or br >= 2)
    rng = rng_of(case["seed"])
    # coloured data so that the projection is not trivial
    Y = np.cumsum(rng.normal(size=(l, n)), axis=1) * 0.1 + rng.normal(size=(l, n))
    refs = sorted(rng.choice(l, size=r, replace=False).tolist())
    if r >= 2 and case["seed"] % 3 == 1:
        # two neighbouring sensors measuring almost the same motion: nearly collinear reference channels
        eps = [1e-2, 1e-3, 1e-4][case["seed"] % 7 % 3]
        Y[refs[1]] = Y[refs[0]] + eps * rng.normal(size=n)
        j.tag("nearly-collinear-references")
    R = Y[refs, :]
    out = sut(ssi.build_hank, Y.copy(), R.copy(), br, "dat")
    if not j.check(not raised(out), "projection-raises", lambda: f"{out!r}"):
        return j
    H = np.asarray(out[0])
    if not j.check(H.shape == ((p + 1) * l, q * r), "projection-shape", lambda: f"{H.shape} expected {((p+1)*l, q*r)}"):
        return j
    N = n - p - q
    cols = np.arange(N - 1)
    Yf = np.vstack([Y[:, q + 1 + i + cols] for i in range(p + 1)])  # future outputs, lag i+1.. relative to newest past
    Yp = np.vstack([R[:, q - jj + cols] for jj in range(q)])  # past reference outputs, newest first
    sv = np.linalg.svd(Yp, compute_uv=False)
    condp = sv[0] / sv[-1] if sv[-1] > 0 else np.inf
    if condp > 1e6:
        j.skip("cond(Yp)>1e6")
        return j
    Q, _ = np.linalg.qr(Yp.T)  # orthonormal basis of the row space of the past reference outputs
    B = Yf @ Q
    G = B @ B.T
    HH = H @ H.T
    # normalisation: H H^T = G / D with D about N
    ratio = np.trace(G) / np.trace(HH)
    j.check(abs(ratio - N) <= 2.0 + 1e-6, "projection-normalisation", lambda: f"trace ratio {ratio!r}, N={N}")
    err = np.max(np.abs(HH * ratio - G)) / np.max(np.abs(G))
    j.check(err <= 1e-8 + 1e-13 * condp, "projection-gram", lambda: f"relative Gram error {err:.3e} (cond(Yp) = {condp:.2e})")
    return j


def judge_class_matrix(case):
    """SSIcov / SSIdat through SingleSetup: result.H is the block matrix of the setup's record against the reference
    channels in the order the user listed them (function level decided by the other sub-checks)."""
    from pyoma2.algorithms import SSIcov, SSIdat
    from pyoma2.setup import SingleSetup

    j = J()
    method, l, r, br = case["method"], case["l"], case["r"], case["br"]
    n = max(case["Ndat"], 6 * (br + 1) * (l + r) + 2 * br + 4)
    rng = rng_of(case["seed"])
    Y = np.cumsum(rng.normal(size=(n, l)), axis=0) * 0.1 + rng.normal(size=(n, l))
    prng = rng_of(case.get("refperm", 0))
    refs = [int(v) for v in prng.permutation(l)[:r]]  # any order, not only ascending
    use_refs = not (r == l and case.get("refperm", 0) % 3 == 0)
    j.tag(method, "ref_ind=None" if not use_refs else ("refs-ascending" if refs == sorted(refs) else "refs-unsorted"))
    j.nontrivial(use_refs and refs != sorted(refs))
    ordmax = max(2, min(4, br * r))
    if ordmax > br * r:
        j.skip("order-exceeds-rank")
        return j
    ss = SingleSetup(relayout(Y, case.get("layout", "C")), fs=50.0)
    kw = dict(name="a", br=br, ordmax=ordmax)
    if use_refs:
        kw["ref_ind"] = list(refs)
    alg = SSIdat(**kw) if method == "dat" else SSIcov(method=method, **kw)
    ss.add_algorithms(alg)
    rr = sut(ss.run_by_name, "a")
    if raised(rr) and rr.type == "LinAlgError":
        j.skip("identification-singular")  # the realisation, not the block matrix, failed
        return j
    if not j.check(not raised(rr), "class-matrix-run-raises", lambda: f"{rr!r}"):
        return j
    Yt = Y.T.copy()
    ref = sut(ssi.build_hank, Yt, Yt[refs if use_refs else list(range(l)), :].copy(), br, method)
    if raised(ref):
        raise RuntimeError(f"{ref!r}")
    H, Hr = np.asarray(alg.result.H), np.asarray(ref[0])
    if j.check(H.shape == Hr.shape, "class-matrix-shape", lambda: f"{H.shape} vs {Hr.shape}"):
        j.check(np.max(np.abs(H - Hr)) <= 1e-10 * np.max(np.abs(Hr)), "class-matrix-value",
                lambda: f"result.H differs from build_hank(data, data[ref_ind={refs if use_refs else None}], br={br}, {method!r}): max diff {np.max(np.abs(H - Hr)):.3e}")
    return j


SUBS = [
    Sub("impulse_basis", judge_impulse, enum=enum_impulse, shards_quick=16, shards_thorough=16,
        rule="for every (l<=4, r<=l, br<=5, Ndat<=40) [quick: l,br<=4, 5 lengths] build_hank on every pair of unit impulses: "
             "non-zero only for the excited channel/reference and t1-t2 = s*lag(i,j); uniform weights, one contiguous run, one sign per method"),
    Sub("bilinear", judge_bilinear, shape_case(), quick=300, thorough=6000,
        rule="H(aY+bY', R) = aH(Y,R)+bH(Y',R) and likewise in the reference argument, cov_mm and cov_R, 1e-12"),
    Sub("definition", judge_definition, shape_case(), quick=300, thorough=6000,
        rule="zero-padded random records: every block equals the plain lagged cross-correlation sum times a uniform weight ~ 1/(number of products)"),
    Sub("definition_offset", judge_definition_offset, shape_case(), quick=150, thorough=3000,
        rule="records with an offset and non-zero ends (no padding): every block within 3 max|y| max|r| / D of the mean lagged product, also with 32..60 block rows on records of 2048..4096 samples"),
    Sub("class_matrix", judge_class_matrix, shape_case(methods=("cov_mm", "cov_R", "dat"), lmax=5, brmax=6), quick=120, thorough=3000,
        rule="SSIcov / SSIdat through SingleSetup: result.H equals build_hank(data, data[ref_ind], br, method) for reference lists in any order"),
    Sub("projection", judge_projection, shape_case(methods=("dat",), lmax=5, brmax=6), quick=200, thorough=4000,
        rule="method 'dat': shape (br+1)l x (br+1)r and H H^T = C_fp C_pp^-1 C_fp^T / N from lagged sums (cond(C_pp) <= 1e8)"),
]
