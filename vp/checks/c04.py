"""C04 - PreGER spectral merging is consistent with the single-setup spectral matrix."""
from __future__ import annotations

import numpy as np
from hypothesis import strategies as st

from pyoma2.algorithms import EFDD_MS, FDD_MS, pLSCF_MS
from pyoma2.functions import fdd
from pyoma2.setup import MultiSetup_PreGER

from ..core import J, Sub, raised, rng_of, sut
from .c02 import layout

PROPERTY = "C04"
RULE = (
    "one simultaneous recording (2..9 channels, 4..8 segments) cut into 2..4 setups sharing 1..3 reference channels placed anywhere in each "
    "dataset; estimators 'per' and 'cor'; segment lengths 64..2048; overlaps 0/0.25/0.5/0.75; differential oracle = fdd.SD_est of "
    "[refs; roving per setup] against the references; general case recomputed from per-setup estimates + gain metamorphic relation; "
    "non-trivial = pov != 0.5 or estimator 'cor' or references not leading the channel list"
)
ASSUMPTIONS = [
    "entries compared relative to (amplitude of the row channel) x (amplitude of the reference channel) with tolerance 1e-10*cond(G_ref,ref(f)) per line, cond taken after diagonal equilibration; lines with cond > 1e8 not judged",
    "fdd.SD_est is the reference for the merged matrix (decided by C13)",
]


@st.composite
def rec_case(draw, level="function"):
    lay = draw(layout(2, 4, 3, 3, nrov_min=1))
    if lay["ntot"] > 9:
        lay = draw(layout(2, 2, 2, 3, nrov_min=1))
    nx = draw(st.sampled_from([64, 128, 256, 512, 1024, 2048, 65, 125, 250]))
    if level != "function":
        nx = min(nx, 512)
    if nx in (65, 125):  # odd lengths: overlaps whose product with nxseg is an integer in floating point
        pov = draw(st.sampled_from([0.0, 0.2, 0.6]))
    else:
        pov = draw(st.sampled_from([0.5, 0.0, 0.25, 0.75])) if nx != 250 else draw(st.sampled_from([0.5, 0.0, 0.2]))
    nseg = draw(st.integers(4, 8))
    fs = draw(st.sampled_from([1.0, 100.0, 37.5, 50.0, 200.0]))
    N = nx * nseg + draw(st.integers(0, nx // 2))
    if draw(st.integers(0, 2)) == 0:
        # a record that is a whole number of segments long; preferably one whose duration does not survive the
        # samples -> seconds -> samples round trip in floating point (N*dt/dt < N)
        dt = 1.0 / fs
        cands = [nx * q for q in range(4, 41)]
        frag = [n for n in cands if int((n * dt) / dt) < n]
        N = frag[0] if frag else nx * nseg
    return {"layout": lay, "nxseg": nx, "pov": pov, "method": draw(st.sampled_from(["per", "cor"])), "N": N,
            "fs": fs, "seed": draw(st.integers(0, 2**32 - 1)), "alg": draw(st.sampled_from(["FDD_MS", "EFDD_MS", "pLSCF_MS"])),
            "gain": draw(st.sampled_from([1.0, 3.0, -0.2, 25.0])), "gsetup": draw(st.integers(0, 3)),
            "level": draw(st.sampled_from([1.0, 1.0, 1e-5, 1e4, 1e-9])),  # overall signal level (accelerations in g, strains, counts ...)
            "pov2": draw(st.sampled_from([0.0, 0.5, 0.25])), "method2": draw(st.sampled_from(["per", "cor"])),
            "chanscale": draw(st.sampled_from([None, None, [0, 2e-5], [1, 3e4], [2, 1e-6], [0, 1e-6], [1, 1e-7]]))}  # one channel recorded in other units (a displacement transducer among accelerometers)


def _recording(case, ntot, independent=False):
    """coloured multi-channel record (N, ntot); with independent=True a different realisation per call index"""
    rng = rng_of(case["seed"])
    N = case["N"]
    e = rng.normal(size=(N + 8, ntot + 2))
    mix = rng.normal(size=(ntot + 2, ntot)) * 0.6 + np.eye(ntot + 2, ntot)
    x = e @ mix
    y = x[8:] + 0.8 * x[7:-1] - 0.5 * x[5:-3] + 0.3 * x[:-8]
    y = y * case.get("level", 1.0)
    if case.get("chanscale"):
        y[:, case["chanscale"][0] % ntot] *= case["chanscale"][1]
    return y


def _tags(j, case):
    lay = case["layout"]
    notlead = any(sorted(s["ref_ind"]) != list(range(lay["nref"])) or s["ref_ind"] != sorted(s["ref_ind"]) for s in lay["setups"])
    j.tag(case["method"], "pov=0.5" if case["pov"] == 0.5 else "pov!=0.5", "refs_moved" if notlead else "refs_leading")
    j.nontrivial(case["pov"] != 0.5 or case["method"] == "cor" or notlead)
    if case.get("level", 1.0) != 1.0:
        j.tag("level!=1")
    if case["N"] % case["nxseg"] == 0:
        j.tag("whole-segments", "duration-roundtrip-fragile" if int((case["N"] * (1.0 / case["fs"])) / (1.0 / case["fs"])) < case["N"] else "duration-roundtrip-exact")


def _compare(j, tag, Sy, ref, cond):
    """Sy, ref: (n_all, n_ref, nf); cond (nf,)"""
    if not j.check(Sy.shape == ref.shape, f"{tag}-shape", lambda: f"{Sy.shape} vs {ref.shape}"):
        return
    k = ref.shape[1]
    auto_ref = np.maximum(np.abs(np.einsum("iik->ik", ref[:k])), 1e-300)  # reference autos (k, nf)
    # every entry relative to (amplitude of its row channel) x (amplitude of its reference channel), so that a reference
    # recorded in much smaller units is judged as strictly as the others
    coh = np.abs(ref) / np.sqrt(auto_ref)[None, :, :]
    rowamp = np.maximum(np.max(coh, axis=1), 1e-300)  # (n_all, nf)
    err = np.abs(Sy - ref) / (rowamp[:, None, :] * np.sqrt(auto_ref)[None, :, :])
    judged = cond <= 1e8
    if not judged.any():
        j.skip("all-lines-illconditioned")
        return
    tol = 1e-10 * cond[judged]
    worst = np.max(err[:, :, judged] / tol[None, None, :])
    if (~judged).any():
        j.skip("line-cond>1e8")
    j.check(worst <= 1.0, f"{tag}-value", lambda: f"merged spectral matrix differs from the single-setup one: max error/tolerance = {worst:.3e} (max rel. error {np.max(err[:, :, judged]):.3e})")


def _cond_eq(G):
    """condition number of the reference block after diagonal equilibration (units of the channels do not matter)"""
    d = np.sqrt(np.maximum(np.abs(np.diag(G)), 1e-300))
    return np.linalg.cond(G / d[:, None] / d[None, :])


def _single(case, y):
    lay = case["layout"]
    k = lay["nref"]
    Y = y.T  # global order: refs then roving in setup order
    return sut(fdd.SD_est, Y, Y[:k], 1.0 / case["fs"], case["nxseg"], method=case["method"], pov=case["pov"])


def judge_simultaneous(case):
    j = J()
    _tags(j, case)
    lay = case["layout"]
    k = lay["nref"]
    y = _recording(case, lay["ntot"])
    Ylist = []
    for s in lay["setups"]:
        rov = [g for g in s["chan"] if g >= k]
        Ylist.append({"ref": y[:, :k].T.copy(), "mov": y[:, rov].T.copy()})
    out = sut(fdd.SD_PreGER, Ylist, case["fs"], nxseg=case["nxseg"], pov=case["pov"], method=case["method"])
    if not j.check(not raised(out), "preger-raises", lambda: f"{out!r}"):
        return j
    ref = _single(case, y)
    if raised(ref):
        raise RuntimeError(f"reference SD_est failed: {ref!r}")
    f, Sy = np.asarray(out[0]), np.asarray(out[1])
    fr, Sr = np.asarray(ref[0]), np.asarray(ref[1])
    j.check(f.shape == fr.shape and np.allclose(f, fr, rtol=1e-12, atol=0), "freq-grid", lambda: f"frequency grids differ: {f[:3]} vs {fr[:3]}")
    cond = np.array([_cond_eq(Sr[:k, :k, q]) for q in range(Sr.shape[2])])
    _compare(j, "simultaneous", Sy, Sr, cond)
    return j


def judge_class(case):
    j = J()
    _tags(j, case)
    j.tag(case["alg"])
    lay = case["layout"]
    k = lay["nref"]
    y = _recording(case, lay["ntot"])
    datasets = [y[:, s["chan"]].copy() for s in lay["setups"]]
    refl = [list(s["ref_ind"]) for s in lay["setups"]]
    ms = MultiSetup_PreGER(fs=case["fs"], ref_ind=refl, datasets=datasets)
    kw = dict(name="a", nxseg=case["nxseg"], method_SD=case["method"], pov=case["pov"])
    if case["alg"] == "FDD_MS":
        alg = FDD_MS(**kw)
    elif case["alg"] == "EFDD_MS":
        alg = EFDD_MS(**kw)
    else:
        alg = pLSCF_MS(ordmax=2, **kw)
    ms.add_algorithms(alg)
    r = sut(ms.run_all)
    if not j.check(not raised(r), "class-run-raises", lambda: f"{r!r}"):
        return j
    ref = _single(case, y)
    if raised(ref):
        raise RuntimeError(f"reference SD_est failed: {ref!r}")
    f, Sy = np.asarray(alg.result.freq), np.asarray(alg.result.Sy)
    fr, Sr = np.asarray(ref[0]), np.asarray(ref[1])
    j.check(f.shape == fr.shape and np.allclose(f, fr, rtol=1e-12, atol=0), "class-freq-grid", lambda: f"{f[:3]} vs {fr[:3]}")
    cond = np.array([_cond_eq(Sr[:k, :k, q]) for q in range(Sr.shape[2])])
    _compare(j, "class", Sy, Sr, cond)
    # the user changes the overlap / estimator on the same algorithm object and runs it again
    pov2, m2 = case.get("pov2"), case.get("method2")
    if pov2 is None or (pov2 == case["pov"] and m2 == case["method"]) or case["nxseg"] in (65, 125, 250):
        return j
    alg.run_params.pov = pov2
    alg.run_params.method_SD = m2
    r = sut(ms.run_all)
    if not j.check(not raised(r), "class-rerun-raises", lambda: f"{r!r}"):
        return j
    c2 = dict(case, pov=pov2, method=m2)
    ref2 = _single(c2, y)
    if raised(ref2):
        raise RuntimeError(f"reference SD_est failed: {ref2!r}")
    j.tag("rerun-changed-params")
    Sr2 = np.asarray(ref2[1])
    cond2 = np.array([_cond_eq(Sr2[:k, :k, q]) for q in range(Sr2.shape[2])])
    _compare(j, "class-rerun", np.asarray(alg.result.Sy), Sr2, cond2)
    return j


def judge_general(case):
    """independent setups (different realisations): blocks recomputed from per-setup SD_est; gain metamorphic relation"""
    j = J()
    _tags(j, case)
    lay = case["layout"]
    k = lay["nref"]
    dt = 1.0 / case["fs"]
    Ylist = []
    per = []
    for i, s in enumerate(lay["setups"]):
        c2 = dict(case)
        c2["seed"] = case["seed"] + 17 * (i + 1)
        y = _recording(c2, lay["ntot"])
        rov = [g for g in s["chan"] if g >= k]
        R, M = y[:, :k].T.copy(), y[:, rov].T.copy()
        Ylist.append({"ref": R, "mov": M})
        a = sut(fdd.SD_est, np.vstack([R, M]), R, dt, case["nxseg"], method=case["method"], pov=case["pov"])
        if raised(a):
            raise RuntimeError(f"reference SD_est failed: {a!r}")
        per.append(np.asarray(a[1]))
    ns = len(Ylist)
    out = sut(fdd.SD_PreGER, Ylist, case["fs"], nxseg=case["nxseg"], pov=case["pov"], method=case["method"])
    if not j.check(not raised(out), "preger-raises", lambda: f"{out!r}"):
        return j
    Sy = np.asarray(out[1])
    nf = Sy.shape[2]
    mean_rr = sum(p[:k, :k, :] for p in per) / ns
    exp = [mean_rr]
    cond = np.zeros(nf)
    for p in per:
        blk = np.empty((p.shape[0] - k, k, nf), dtype=complex)
        for q in range(nf):
            G = p[:k, :k, q]
            cond[q] = max(cond[q], _cond_eq(G))
            blk[:, :, q] = p[k:, :k, q] @ np.linalg.solve(G, mean_rr[:, :, q])
        exp.append(blk)
    exp = np.concatenate(exp, axis=0)
    _compare(j, "general", Sy, exp, cond)
    # metamorphic: scale all channels of one setup by g
    g = case["gain"]
    gi = case["gsetup"] % ns
    Y2 = [{"ref": d["ref"] * (g if i == gi else 1.0), "mov": d["mov"] * (g if i == gi else 1.0)} for i, d in enumerate(Ylist)]
    out2 = sut(fdd.SD_PreGER, Y2, case["fs"], nxseg=case["nxseg"], pov=case["pov"], method=case["method"])
    if j.check(not raised(out2), "preger-gain-raises", lambda: f"{out2!r}"):
        S2 = np.asarray(out2[1])
        mean2 = mean_rr + (g * g - 1) / ns * per[gi][:k, :k, :]
        exp2 = [mean2]
        for p in per:
            blk = np.empty((p.shape[0] - k, k, nf), dtype=complex)
            for q in range(nf):
                blk[:, :, q] = p[k:, :k, q] @ np.linalg.solve(p[:k, :k, q], mean2[:, :, q])
            exp2.append(blk)
        _compare(j, "gain", S2, np.concatenate(exp2, axis=0), cond)
    return j


SUBS = [
    Sub("simultaneous", judge_simultaneous, rec_case(), quick=120, thorough=9000,
        rule="fdd.SD_PreGER on setups cut from one recording equals fdd.SD_est([refs; roving...], refs) with the same nxseg/pov/method, same frequency grid"),
    Sub("classes", judge_class, rec_case("class"), quick=180, thorough=7500,
        rule="FDD_MS / EFDD_MS / pLSCF_MS .result.{freq,Sy} through MultiSetup_PreGER.run_all (reference columns anywhere) equal the single-setup matrix"),
    Sub("general", judge_general, rec_case(), quick=100, thorough=7500,
        rule="independent setups: reference block = mean of per-setup blocks, roving block = G_mov,ref G_ref,ref^-1 mean; scaling one setup by g changes only the mean reference block by (g^2-1)/n G_i"),
]
