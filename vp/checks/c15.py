"""C15 - runs are gated, deterministic, isolated, persistent; PoSER validates its inputs.

Model-based testing of add / run / mpe histories against an executable model whose expected
results are those of fresh instances run alone on copies of the bound data."""
from __future__ import annotations

import itertools
import os
import tempfile

import numpy as np
from hypothesis import strategies as st

from pyoma2.algorithms import EFDD, EFDD_MS, FDD, FDD_MS, FSDD, SSIcov, SSIcov_MS, SSIdat, SSIdat_MS, pLSCF, pLSCF_MS
from pyoma2.algorithms.data.result import EFDDResult, FDDResult, SSIResult
from pyoma2.functions import gen
from pyoma2.setup import MultiSetup_PoSER, MultiSetup_PreGER, SingleSetup

from ..core import J, Sub, raised, rng_of, sut

PROPERTY = "C15"
RULE = (
    "histories of add / run_by_name / run_all / mpe over two real algorithms (SSIcov + FDD; multi-setup variants) enumerated to length 5 (quick) / 6 "
    "(thorough) [PreGER: 4 / 5] against an executable model, plus generated histories over the whole pool (FDD, EFDD, FSDD, SSIcov, SSIdat, pLSCF, *_MS, instances "
    "without run parameters, unknown names); expected results = fresh instances run alone on copies of the data (memoised); PoSER constructor "
    "configurations enumerated; non-trivial = history in which >= 2 different algorithms ran, or a rejected PoSER configuration one attribute away from an accepted one"
)
ASSUMPTIONS = [
    "'nothing is stored' on a failed call is read as 'no result is stored' (run parameters that an mpe call writes before failing are not judged)",
    "results are compared exactly (NaN-aware): pyOMA2 is deterministic single-threaded numerical code (OPENBLAS_NUM_THREADS=1)",
    "mpe before run must raise some exception; missing run parameters / data must raise ValueError; unknown names KeyError; PoSER ValueError",
]


# ---------------------------------------------------------------------------
# deep comparison of result objects
# ---------------------------------------------------------------------------
def deep_equal(a, b):
    if a is None or b is None:
        return a is None and b is None
    if isinstance(a, np.ndarray) or isinstance(b, np.ndarray):
        a, b = np.asarray(a), np.asarray(b)
        if a.shape != b.shape:
            return False
        if a.dtype.kind in "fc" or b.dtype.kind in "fc":
            return bool(np.array_equal(a, b, equal_nan=True))
        return bool(np.array_equal(a, b))
    if isinstance(a, (list, tuple)):
        return isinstance(b, (list, tuple)) and len(a) == len(b) and all(deep_equal(x, y) for x, y in zip(a, b))
    if isinstance(a, dict):
        return isinstance(b, dict) and a.keys() == b.keys() and all(deep_equal(a[k], b[k]) for k in a)
    if isinstance(a, float) and isinstance(b, float) and a != a and b != b:
        return True
    try:
        return bool(a == b)
    except Exception:  # noqa: BLE001
        return False


def snapshot(obj):
    """pydantic model -> dict of copies"""
    if obj is None:
        return None
    out = {}
    for k in type(obj).model_fields:
        v = getattr(obj, k)
        out[k] = _copy(v)
    return out


def _copy(v):
    if isinstance(v, np.ndarray):
        return v.copy()
    if isinstance(v, (list, tuple)):
        return [_copy(x) for x in v]
    if isinstance(v, dict):
        return {k: _copy(x) for k, x in v.items()}
    return v


def diff_fields(a, b):
    if a is None or b is None:
        return [] if (a is None and b is None) else ["<result present/absent>"]
    return [k for k in set(a) | set(b) if not deep_equal(a.get(k), b.get(k))]


# ---------------------------------------------------------------------------
# algorithm pool
# ---------------------------------------------------------------------------
FS = 50.0
POOL_SINGLE = {
    "SSIcov": (SSIcov, dict(br=6, ordmax=6), dict(order=4)),
    "SSIdat": (SSIdat, dict(br=6, ordmax=6), dict(order=4)),
    "SSIcovU": (SSIcov, dict(br=6, ordmax=6, calc_unc=True, nb=10), dict(order=4)),  # default criteria incl. the covariance limit, next to algorithms that never use it
    "pLSCF": (pLSCF, dict(ordmax=4, nxseg=128), dict(order=2)),
    "FDD": (FDD, dict(nxseg=128), dict(DF=1.0)),
    "EFDD": (EFDD, dict(nxseg=256), dict(DF1=1.0, DF2=4.0, npmax=6)),
    "FSDD": (FSDD, dict(nxseg=256), dict(DF1=1.0, DF2=4.0, npmax=6)),
}
POOL_MS = {
    "SSIcov": (SSIcov_MS, dict(br=6, ordmax=6), dict(order=4)),
    "SSIdat": (SSIdat_MS, dict(br=6, ordmax=6), dict(order=4)),
    "pLSCF": (pLSCF_MS, dict(ordmax=4, nxseg=128), dict(order=2)),
    "FDD": (FDD_MS, dict(nxseg=128), dict(DF=1.0)),
    "EFDD": (EFDD_MS, dict(nxseg=256), dict(DF1=1.0, DF2=4.0, npmax=6)),
}
SEL = [6.0]
DEFAULTS = {"pov": 0.5, "method_SD": "per"}  # library defaults of the fields the pool leaves unset
# the alternative parameter set a user may switch to between two runs of the same object (one field per class)
ALT = {"SSIcov": dict(br=7), "SSIdat": dict(br=7), "SSIcovU": dict(br=7), "pLSCF": dict(pov=0.0), "FDD": dict(pov=0.0), "EFDD": dict(method_SD="cor"), "FSDD": dict(pov=0.25)}


def _data(kind, seed=7):
    rng = rng_of(seed)
    N = 700
    t = np.arange(N) / FS
    base = np.sin(2 * np.pi * 6.0 * t)[:, None] * np.array([[1.0, 0.6, -0.4, 0.8]]) * np.exp(-0.0 * t)[:, None]
    y = base + 0.5 * rng.normal(size=(N, 4))
    if kind == "single":
        return y[:, :3]
    return [y[:, [0, 1, 2]], y[:, [3, 0, 1]]], [[0, 1], [1, 2]]


def _new_setup(kind, seed=7):
    if kind == "single":
        return SingleSetup(_data(kind, seed), fs=FS)
    ds, refs = _data(kind, seed)
    return MultiSetup_PreGER(fs=FS, ref_ind=refs, datasets=ds)


def _new_alg(kind, cls_key, name, with_params=True, alt=False):
    cls, kw, _ = (POOL_SINGLE if kind == "single" else POOL_MS)[cls_key]
    if alt:
        kw = dict(kw, **ALT[cls_key])
    return cls(name=name, **kw) if with_params else cls(name=name)


_MEMO = {}
SEEDS = (7, 8)


def _precompute():
    """expected results from pristine interpreters, one per (kind, class, seed); run once in the parent process"""
    import pickle
    import subprocess
    import sys

    if os.environ.get("VP_C15_ISO_CHILD"):
        return
    jobs = [(k, c, sd) for k, pool in (("single", POOL_SINGLE), ("preger", POOL_MS)) for c in sorted(pool) for sd in SEEDS]
    env = dict(os.environ, VP_C15_ISO_CHILD="1")
    with tempfile.TemporaryDirectory() as d:
        running = []
        pending = list(jobs)
        done = []
        while pending or running:
            while pending and len(running) < 16:
                k, c, sd = pending.pop()
                out = os.path.join(d, f"{k}-{c}-{sd}.pkl")
                pr = subprocess.Popen([sys.executable, "-m", "vp.checks.c15_iso", k, c, str(sd), out], env=env, stdout=subprocess.PIPE, stderr=subprocess.STDOUT)
                running.append((pr, (k, c, sd), out))
            pr, key, out = running.pop(0)
            log = pr.communicate()[0]
            if pr.returncode != 0:
                raise RuntimeError(f"isolated reference run {key} failed:\n{log.decode()[-2000:]}")
            done.append((key, out))
            with open(out, "rb") as f:
                res = pickle.load(f)
            for stage in ("run", "mpe", "run_alt", "mpe_alt"):
                _MEMO[(key[0], key[1], stage, key[2])] = res[stage]


def expected(kind, cls_key, stage, seed=7):
    """result snapshot of a fresh instance run alone in a pristine interpreter (stage 'run') and then mpe'd (stage 'mpe')"""
    if not _MEMO:
        _precompute()
    return _MEMO[(kind, cls_key, stage, seed)]


def _fp(data, kind):
    if kind == "single":
        return np.ascontiguousarray(data).tobytes()
    return b"".join(np.ascontiguousarray(d["ref"]).tobytes() + np.ascontiguousarray(d["mov"]).tobytes() for d in data)


def _data_fingerprint(setup, kind):
    return _fp(setup.data, kind)


# ---------------------------------------------------------------------------
# history interpreter
# ---------------------------------------------------------------------------
def judge_history(case):
    j = J()
    kind = case["kind"]
    seed = case.get("seed", 7)
    algs_spec = {n: (list(v) + [0])[:3] for n, v in case["algs"].items()}  # name -> [cls_key, with_params, setup index]
    nset = 1 + max(v[2] for v in algs_spec.values())
    seeds = [seed] + [s_ for s_ in SEEDS if s_ != seed]
    setups = [_new_setup(kind, seeds[i]) for i in range(nset)]
    fps = [_data_fingerprint(s_, kind) for s_ in setups]
    objs = {n: _new_alg(kind, ck, n, wp) for n, (ck, wp, _) in algs_spec.items()}
    model = {n: {"added": False, "ran": False, "mpe": False, "bound": None, "orig": True, "alt": False, "ran_alt": False} for n in objs}
    prepped = [False] * nset
    ran_classes = set()
    order_model = [[] for _ in range(nset)]  # names in the order of their first addition (a re-added name keeps its place)
    j.tag(kind)

    def check_all(step, what):
        j.check(all(_data_fingerprint(s_, kind) == f_ for s_, f_ in zip(setups, fps)), "data-mutated", lambda: f"after step {step} ({what}): a setup's data array changed")
        for n, a in objs.items():
            m = model[n]
            ck = algs_spec[n][0]
            if m["bound"] is not None:
                # an algorithm keeps the data (and sampling frequency) it was given when it was added
                j.check(_fp(a.data, kind) == m["bound"][0] and a.fs == m["bound"][1], "binding-changed",
                        lambda: f"after step {step} ({what}): algorithm {n} is no longer bound to the data/fs it was added with")
            if m.get("unknown") or (m["ran"] and not m["orig"]):
                continue  # bound to preprocessed data: no isolated reference for that state
            if not m["ran"]:
                j.check(a.result is None, "result-without-run", lambda: f"after step {step} ({what}): algorithm {n} has a result although it never ran successfully")
                continue
            tag, exp = expected(kind, ck, ("mpe" if m["mpe"] else "run") + ("_alt" if m["ran_alt"] else ""), seeds[algs_spec[n][2]])
            if tag != "ok":
                continue
            got = snapshot(a.result)
            d = diff_fields(got, exp)
            j.check(not d, "result-differs", lambda: f"after step {step} ({what}): result of {n} ({ck}) differs from an isolated fresh run in fields {sorted(d)}")

    for step, op in enumerate(case["ops"], start=1):
        kindop = op[0]
        if kindop == "add":
            names = op[1]
            for si in range(nset):
                mine = [n for n in names if algs_spec[n][2] == si]
                if not mine:
                    continue
                r = sut(setups[si].add_algorithms, *[objs[n] for n in mine])
                if not j.check(not raised(r), "add-raises", lambda: f"{r!r}"):
                    return j
            for n in names:
                if n not in order_model[algs_spec[n][2]]:
                    order_model[algs_spec[n][2]].append(n)
            for si in range(nset):
                got_order = list(getattr(setups[si], "algorithms", {}) or {})
                j.check(got_order == order_model[si], "algorithm-order", lambda: f"after step {step}: setup {si} lists its algorithms as {got_order}, order of addition is {order_model[si]}")
            for n in names:
                model[n]["added"] = True
                st_ = setups[algs_spec[n][2]]
                model[n]["bound"] = (_fp(st_.data, kind), st_.fs)
                model[n]["orig"] = not prepped[algs_spec[n][2]]
            check_all(step, f"add {names}")
        elif kindop == "prep":
            si = op[1] % nset
            r = sut(setups[si].detrend_data) if op[2] == "detrend" else sut(setups[si].decimate_data, q=2)
            if not j.check(not raised(r), "prep-raises", lambda: f"{r!r}"):
                return j
            prepped[si] = True
            fps[si] = _data_fingerprint(setups[si], kind)
            check_all(step, f"{op[2]} on setup {si}")
        elif kindop == "run":
            n = op[1]
            setup = setups[algs_spec[n][2]] if n in objs else setups[0]
            r = sut(setup.run_by_name, n)
            if n not in objs or not model[n]["added"]:
                j.check(raised(r) and r.type == "KeyError", "unknown-name", lambda: f"run_by_name({n!r}) on a setup without that algorithm: {r!r} (KeyError expected)")
            elif not algs_spec[n][1]:
                j.check(raised(r) and r.type == "ValueError", "missing-params", lambda: f"run without run parameters: {r!r} (ValueError expected)")
            elif raised(r) and not model[n]["orig"]:
                # bound to preprocessed data, for which there is no isolated reference run: whether the algorithm can
                # digest that record (e.g. an exactly zero DC line after detrending) is not this property's subject
                j.skip("run-raises-on-preprocessed-data")  # run() raised before a result was stored: the state is unchanged
            else:
                if j.check(not raised(r), "run-raises", lambda: f"run_by_name({n!r}) raised {r!r}"):
                    model[n]["ran"] = True
                    model[n]["mpe"] = False
                    model[n]["ran_alt"] = model[n]["alt"]
                    ran_classes.add(algs_spec[n][0])
            check_all(step, f"run {n}")
        elif kindop == "setrun":
            # the user switches one run parameter of an algorithm that is already in a setup and runs it again at once
            n = op[1]
            m = model[n]
            if not (m["added"] and algs_spec[n][1] and m["orig"] and not m.get("unknown")):
                continue
            target = ALT[algs_spec[n][0]] if not m["alt"] else {k_: (POOL_SINGLE if kind == "single" else POOL_MS)[algs_spec[n][0]][1].get(k_, DEFAULTS.get(k_)) for k_ in ALT[algs_spec[n][0]]}
            for k_, v_ in target.items():
                setattr(objs[n].run_params, k_, v_)
            m["alt"] = not m["alt"]
            j.tag("parameters-switched")
            r = sut(setups[algs_spec[n][2]].run_by_name, n)
            if j.check(not raised(r), "run-raises", lambda: f"run_by_name({n!r}) after a parameter change raised {r!r}"):
                m["ran"], m["mpe"], m["ran_alt"] = True, False, m["alt"]
                ran_classes.add(algs_spec[n][0])
            check_all(step, f"switch parameters of {n} and run")
        elif kindop == "run_all":
            setup = setups[(op[1] if len(op) > 1 else 0) % nset]
            r = sut(setup.run_all)
            added = [n for n in getattr(setup, "algorithms", {})]
            first_bare = next((i_ for i_, n in enumerate(added) if not algs_spec[n][1]), None)
            if first_bare is not None and raised(r) and r.type != "ValueError" and any(not model[n]["orig"] for n in added[:first_bare]):
                # an algorithm bound to preprocessed data raised before the one without run parameters was reached
                j.skip("run-all-raises-on-preprocessed-data")
                for n in added:
                    model[n]["unknown"] = True
            elif any(not algs_spec[n][1] for n in added):
                j.check(raised(r) and r.type == "ValueError", "missing-params", lambda: f"run_all with an algorithm lacking run parameters: {r!r} (ValueError expected)")
                # algorithms before the failing one (insertion order) did run
                for n in added:
                    if not algs_spec[n][1]:
                        break
                    model[n]["ran"] = True
                    model[n]["mpe"] = False
                    model[n]["ran_alt"] = model[n]["alt"]
                    ran_classes.add(algs_spec[n][0])
            elif raised(r) and any(not model[n]["orig"] for n in added):
                j.skip("run-all-raises-on-preprocessed-data")
                for n in added:  # which algorithms completed before the failing one is not modelled
                    model[n]["unknown"] = True
            else:
                if j.check(not raised(r), "run-all-raises", lambda: f"{r!r}"):
                    for n in added:
                        model[n]["ran"] = True
                        model[n]["mpe"] = False
                        model[n]["ran_alt"] = model[n]["alt"]
                        ran_classes.add(algs_spec[n][0])
            check_all(step, "run_all")
        elif kindop == "mpe":
            n = op[1]
            if n in objs:
                mk = (POOL_SINGLE if kind == "single" else POOL_MS)[algs_spec[n][0]][2]
            else:
                mk = {}
            setup = setups[algs_spec[n][2]] if n in objs else setups[0]
            r = sut(setup.mpe, n, sel_freq=list(SEL), **mk)
            if n not in objs or not model[n]["added"]:
                j.check(raised(r) and r.type == "KeyError", "unknown-name", lambda: f"mpe({n!r}) on a setup without that algorithm: {r!r} (KeyError expected)")
            elif not model[n]["ran"]:
                j.check(raised(r), "mpe-before-run", lambda: f"mpe({n!r}) before run did not raise")
            elif not model[n]["orig"] or model[n].get("unknown"):
                if raised(r):
                    j.skip("mpe-raises-on-preprocessed-data")
                else:
                    model[n]["mpe"] = True
            else:
                tag, _ = expected(kind, algs_spec[n][0], "mpe_alt" if model[n]["ran_alt"] else "mpe", seeds[algs_spec[n][2]])
                if tag == "ok":
                    if j.check(not raised(r), "mpe-raises", lambda: f"mpe({n!r}) raised {r!r} although an isolated run+mpe succeeds"):
                        model[n]["mpe"] = True
                else:
                    j.check(raised(r), "mpe-should-raise", lambda: f"mpe({n!r}) succeeded although an isolated run+mpe raises")
            check_all(step, f"mpe {n}")
    j.nontrivial(len(ran_classes) >= 2)
    return j


def enum_histories(kind):
    def f(tier):
        L = {("single", "quick"): 5, ("single", "thorough"): 6, ("preger", "quick"): 4, ("preger", "thorough"): 5}[(kind, tier)]
        sym = [["add", ["A"]], ["add", ["B"]], ["run", "A"], ["run", "B"], ["run_all"], ["mpe", "A"], ["mpe", "B"]]
        cases = []
        for n in range(1, L + 1):
            for seq in itertools.product(range(len(sym)), repeat=n):
                cases.append({"kind": kind, "algs": {"A": ["SSIcov", True], "B": ["FDD", True]}, "ops": [sym[i] for i in seq]})
        return cases, True

    return f


@st.composite
def machine_case(draw, kind):
    pool = sorted(POOL_SINGLE if kind == "single" else POOL_MS)
    k = draw(st.integers(2, 3))
    names = ["A", "B", "C"][:k]
    algs = {}
    for n in names:
        algs[n] = [draw(st.sampled_from(pool)), draw(st.integers(0, 7)) != 0, draw(st.integers(0, 1))]
    ops = []
    if draw(st.integers(0, 4)) != 0:  # most histories start by adding everything (construction: makes multi-algorithm runs likely)
        ops.append(["add", list(names)])
    for _ in range(draw(st.integers(2, 8))):
        o = draw(st.sampled_from(["add", "add", "run", "run", "run", "run_all", "run_all", "mpe", "mpe", "unknown", "prep", "setrun", "setrun"]))
        if o == "setrun":
            ops.append(["setrun", draw(st.sampled_from(names))])
            continue
        if o == "prep":
            ops.append(["prep", draw(st.integers(0, 1)), draw(st.sampled_from(["detrend", "decimate"]))])
            continue
        if o == "add":
            ops.append(["add", draw(st.lists(st.sampled_from(names), min_size=1, max_size=k, unique=True))])
        elif o == "run":
            ops.append(["run", draw(st.sampled_from(names))])
        elif o == "mpe":
            ops.append(["mpe", draw(st.sampled_from(names))])
        elif o == "unknown":
            ops.append([draw(st.sampled_from(["run", "mpe"])), "nobody"])
        else:
            ops.append(["run_all", draw(st.integers(0, 1))])
    return {"kind": kind, "algs": algs, "ops": ops, "seed": draw(st.sampled_from([7, 8]))}


# ---------------------------------------------------------------------------
# pickle round trip
# ---------------------------------------------------------------------------
def judge_pickle(case):
    case = dict(case)
    case["algs"] = {n: [v[0], v[1]] for n, v in case["algs"].items()}  # one setup for the round trip
    j = judge_history(case)
    kind = case["kind"]
    # rebuild the same history (the first pass judged it) and round-trip the final state
    setup = _new_setup(kind, case.get("seed", 7))
    objs = {n: _new_alg(kind, ck, n, wp) for n, (ck, wp) in case["algs"].items()}
    for op in case["ops"]:
        if op[0] == "add":
            sut(setup.add_algorithms, *[objs[n] for n in op[1]])
        elif op[0] == "run":
            sut(setup.run_by_name, op[1])
        elif op[0] == "run_all":
            sut(setup.run_all)
        elif op[0] == "mpe" and op[1] in objs:
            mk = (POOL_SINGLE if kind == "single" else POOL_MS)[case["algs"][op[1]][0]][2]
            sut(setup.mpe, op[1], sel_freq=list(SEL), **mk)
        elif op[0] == "prep":
            sut(setup.detrend_data) if op[2] == "detrend" else sut(setup.decimate_data, q=2)
    with tempfile.TemporaryDirectory() as d:
        # the file name is the user's: with or without an extension, with dots in it
        fname = ["setup.pkl", "setup_backup", "run.2024.dat", "results"][len(case["ops"]) % 4]
        j.tag("file=" + fname)
        path = os.path.join(d, fname)
        # an earlier state saved to (and loaded from) the same path must not shadow the later one
        early = _new_setup(kind, case.get("seed", 7))
        sut(gen.save_to_file, early, path)
        sut(gen.load_from_file, path)
        r = sut(gen.save_to_file, setup, path)
        if not j.check(not raised(r), "save-raises", lambda: f"{r!r}"):
            return j
        back = sut(gen.load_from_file, path)
    if not j.check(not raised(back), "load-raises", lambda: f"{back!r}"):
        return j
    a0 = getattr(setup, "algorithms", {})
    a1 = getattr(back, "algorithms", {})
    if not j.check(list(a0.keys()) == list(a1.keys()), "pickle-algorithms", lambda: f"{list(a0)} vs {list(a1)}"):
        return j
    for n in a0:
        d = diff_fields(snapshot(a0[n].result), snapshot(a1[n].result))
        j.check(not d, "pickle-result", lambda: f"algorithm {n}: result fields {sorted(d)} differ after save/load")
        d = diff_fields(snapshot(a0[n].run_params), snapshot(a1[n].run_params))
        j.check(not d, "pickle-params", lambda: f"algorithm {n}: run parameters {sorted(d)} differ after save/load")
        j.check(type(a0[n]) is type(a1[n]) and a0[n].name == a1[n].name, "pickle-type", "algorithm type/name differs after save/load")
        # the loaded algorithm is still bound to the data / sampling it was added with (which preprocessing may since have replaced in the setup)
        same_bind = deep_equal(getattr(a0[n], "data", None), getattr(a1[n], "data", None)) and deep_equal(getattr(a0[n], "fs", None), getattr(a1[n], "fs", None)) \
            and deep_equal(getattr(a0[n], "dt", None), getattr(a1[n], "dt", None))
        j.check(same_bind, "pickle-binding", lambda: f"algorithm {n}: bound data / fs / dt differ after save/load")
    j.check(deep_equal(getattr(setup, "fs", None), getattr(back, "fs", None)), "pickle-fs", "fs differs after save/load")
    j.check(deep_equal(getattr(setup, "data", None), getattr(back, "data", None)), "pickle-data", "setup data differ after save/load")
    return j


# ---------------------------------------------------------------------------
# PoSER constructor validation
# ---------------------------------------------------------------------------
# A = FDD, B = SSIcov, E = EFDD (a subclass of FDD: "identical types" must not be relaxed to isinstance)
TYPELISTS = [[], ["A"], ["B"], ["E"], ["A", "B"], ["B", "A"], ["A", "A"], ["A", "E"], ["E", "A"]]
STATES = ["new", "run", "mpe"]


def _setup_configs():
    cfgs = []
    for tl in TYPELISTS:
        for sts in itertools.product(STATES, repeat=len(tl)):
            cfgs.append((tl, list(sts)))
    return cfgs


CONFIGS = _setup_configs()  # 55
_BUILT = {}


def _build_setup(ci):
    if ci not in _BUILT:
        tl, sts = CONFIGS[ci]
        s = SingleSetup(np.zeros((8, 3)), fs=10.0)
        algs = []
        for k, (t, stt) in enumerate(zip(tl, sts)):
            if t in ("A", "E"):
                a = (FDD if t == "A" else EFDD)(name=f"fdd{k}", nxseg=64)
                if stt != "new":
                    rc = FDDResult if t == "A" else EFDDResult
                    a._set_result(rc(freq=np.arange(3.0), Fn=np.array([1.0]) if stt == "mpe" else None, Phi=np.ones((3, 1)) if stt == "mpe" else None))
            else:
                a = SSIcov(name=f"ssi{k}", br=4)
                if stt != "new":
                    a._set_result(SSIResult(Fn=np.array([1.0]) if stt == "mpe" else None, Xi=np.array([0.01]) if stt == "mpe" else None, Phi=np.ones((3, 1)) if stt == "mpe" else None))
            algs.append(a)
        if algs:
            s.add_algorithms(*algs)
        _BUILT[ci] = s
    return _BUILT[ci]


def _poser_expected(cis, names):
    if len(cis) < 2:
        return False
    tls = [CONFIGS[c][0] for c in cis]
    if any(len(t) == 0 for t in tls):
        return False
    if any(t != tls[0] for t in tls):
        return False
    if len(names) != len(tls[0]):
        return False
    return all(all(s == "mpe" for s in CONFIGS[c][1]) for c in cis)


def enum_poser(tier):
    cases = [{"first": None}]
    for c in range(len(CONFIGS)):
        cases.append({"first": c})
    return cases, True


def judge_poser(case):
    j = J()
    first = case["first"]
    nconf = len(CONFIGS)
    if first is None:
        combos = [()]
    else:
        combos = [(first,)] + [(first, b) for b in range(nconf)] + [(first, b, c) for b in range(nconf) for c in range(nconf)]
    naccept = nreject = 0
    near = 0
    for cis in combos:
        setups = [_build_setup(c) for c in cis]
        for nn in range(4):
            names = [f"n{q}" for q in range(nn)]
            exp = _poser_expected(cis, names)
            # the names as a list, a tuple or an array: the container carries no meaning
            nm_arg = [list(names), tuple(names), np.array(names, dtype=object) if names else list(names)][(len(cis) + nn) % 3]
            r = sut(lambda: MultiSetup_PoSER(ref_ind=[[0]] * len(setups), single_setups=list(setups), names=nm_arg))
            if exp:
                naccept += 1
                if not j.check(not raised(r), "poser-rejects-valid", lambda: f"valid configuration {[CONFIGS[c] for c in cis]} names={names} rejected: {r!r}"):
                    return j
            else:
                nreject += 1
                if not j.check(raised(r) and r.type == "ValueError", "poser-accepts-invalid", lambda: f"invalid configuration {[CONFIGS[c] for c in cis]} names={names}: {r!r} (ValueError expected)"):
                    return j
                # one attribute away from an accepted configuration?
                if len(cis) >= 2 and len(names) == len(CONFIGS[cis[0]][0]) and all(CONFIGS[c][0] == CONFIGS[cis[0]][0] for c in cis):
                    near += 1
    j.tag(f"accepted={naccept}", f"rejected={nreject}")
    j.nchecks += len(combos) * 4
    j.nontrivial(near > 0 or naccept > 0)
    return j


@st.composite
def poser4_case(draw):
    return {"cis": [draw(st.integers(0, len(CONFIGS) - 1)) for _ in range(4)], "nn": draw(st.integers(0, 3)), "bias": draw(st.booleans())}


def judge_poser4(case):
    j = J()
    cis = list(case["cis"])
    if case["bias"]:  # make acceptance likely: same type list everywhere
        tl = CONFIGS[cis[0]][0]
        same = [i for i, c in enumerate(CONFIGS) if c[0] == tl]
        cis = [same[c % len(same)] for c in cis]
    names = [f"n{q}" for q in range(case["nn"])]
    exp = _poser_expected(cis, names)
    setups = [_build_setup(c) for c in cis]
    r = sut(lambda: MultiSetup_PoSER(ref_ind=[[0]] * 4, single_setups=setups, names=names))
    if exp:
        j.check(not raised(r), "poser-rejects-valid", lambda: f"{[CONFIGS[c] for c in cis]} names={names}: {r!r}")
    else:
        j.check(raised(r) and r.type == "ValueError", "poser-accepts-invalid", lambda: f"{[CONFIGS[c] for c in cis]} names={names}: {r!r}")
    j.nontrivial(exp or case["bias"])
    return j


SUBS = [
    Sub("enumerate_single", judge_history, enum=enum_histories("single"), shards_quick=16, shards_thorough=16,
        rule="SingleSetup, algorithms A=SSIcov, B=FDD: every sequence over {add A, add B, run A, run B, run_all, mpe A, mpe B} up to length 5 (quick) / 6 (thorough)"),
    Sub("enumerate_preger", judge_history, enum=enum_histories("preger"), shards_quick=16, shards_thorough=16,
        rule="MultiSetup_PreGER, A=SSIcov_MS, B=FDD_MS: same enumeration up to length 4 (quick) / 5 (thorough)"),
    Sub("machine_single", judge_history, machine_case("single"), quick=400, thorough=6000,
        rule="SingleSetup: generated histories (<= 7 steps) over 1..3 algorithms from the whole pool, some without run parameters, unknown names"),
    Sub("machine_preger", judge_history, machine_case("preger"), quick=200, thorough=4000,
        rule="MultiSetup_PreGER: generated histories over the multi-setup pool"),
    Sub("pickle_roundtrip", judge_pickle, machine_case("single"), quick=150, thorough=2500,
        rule="gen.save_to_file / load_from_file after a generated history: algorithm names, types, run parameters and every result field equal"),
    Sub("poser_validation", judge_poser, enum=enum_poser, shards_quick=16, shards_thorough=16,
        rule="MultiSetup_PoSER constructor for every assignment of type lists, run/mpe states and 0..3 names to 0..3 setups over the types FDD, SSIcov, EFDD (subclass of FDD): 677 824 configurations: accepted iff >= 2 setups, non-empty identical type lists, one name per algorithm, all extracted; ValueError otherwise"),
    Sub("poser_4setups", judge_poser4, poser4_case(), quick=300, thorough=10000,
        rule="same oracle, four setups, sampled"),
]


# expected results are computed once, in the parent process, before the workers are forked
if not os.environ.get("VP_C15_ISO_CHILD"):
    _precompute()
