"""C03 - PreGER multi-setup SSI identifies the global system exactly on noise-free data;
the reference/roving split is faithful."""
from __future__ import annotations

import itertools
import math

import numpy as np
from hypothesis import strategies as st
from scipy import signal

from pyoma2.algorithms import SSIcov_MS, SSIdat_MS
from pyoma2.functions import gen, ssi
from pyoma2.setup import MultiSetup_PreGER

from .. import modal
from ..core import J, Sub, mac, raised, sut
from .c01 import CTOL, KAPPA_MAX, NEUTRAL_HC, NEUTRAL_SC, _kappa_data
from .c02 import layout

PROPERTY = "C03"
RULE = (
    "split: every channel count 1..6 and every ordered non-empty reference subset (2365 layouts, exhaustive), distinct-integer data; "
    "identification: global systems with 1..5 modes, 2..4 setups, 1..3 references and 1..4 roving sensors at any positions, reference "
    "lists in any order, per-setup gains over 4 decades and independent initial conditions; oracle = the known global system; "
    "non-trivial = >= 2 modes and unequal roving counts or a non-identity reference order"
)
ASSUMPTIONS = [
    "tolerance 1e-8*kappa, kappa = worst per-setup sigma_1/sigma_2m of the harness-built block-Hankel data matrices (<= 1e6 else not judged)",
    "hard criteria neutral; global shapes with all-equal components excluded (known finding C18-mpc-all-equal)",
]


# ---------------------------------------------------------------------------
# exhaustive split
# ---------------------------------------------------------------------------
def enum_split(tier):
    cases = []
    for n in range(1, 7):
        for k in range(1, n + 1):
            for refs in itertools.permutations(range(n), k):
                cases.append({"n": n, "refs": list(refs)})
    return cases, True


def _own_split(data, refs):
    mov = [c for c in range(data.shape[1]) if c not in refs]
    return data[:, refs].T, data[:, mov].T


def _cmp_split(j, tag, got, data, refs, tol=0.0):
    er, em = _own_split(data, refs)
    ok = isinstance(got, dict) and set(got.keys()) >= {"ref", "mov"}
    if not j.check(ok, f"{tag}-keys", lambda: f"{type(got)}"):
        return
    gr, gm = np.asarray(got["ref"]), np.asarray(got["mov"])
    if not j.check(gr.shape == er.shape and gm.shape == em.shape, f"{tag}-shape", lambda: f"ref {gr.shape} vs {er.shape}, mov {gm.shape} vs {em.shape}"):
        return
    if tol == 0.0:
        j.check(np.array_equal(gr, er), f"{tag}-ref", lambda: f"reference rows differ for refs={refs}: first samples {gr[:, 0].tolist()} expected {er[:, 0].tolist()}")
        j.check(np.array_equal(gm, em), f"{tag}-mov", lambda: f"roving rows differ for refs={refs}: first samples {gm[:, 0].tolist() if gm.size else []} expected {em[:, 0].tolist() if em.size else []}")
    else:
        sc = max(np.max(np.abs(er)), 1e-300)
        j.check(np.max(np.abs(gr - er)) <= tol * sc, f"{tag}-ref", lambda: f"reference rows differ for refs={refs} (max diff {np.max(np.abs(gr - er)):.3e})")
        if em.size:
            j.check(np.max(np.abs(gm - em)) <= tol * sc, f"{tag}-mov", lambda: f"roving rows differ for refs={refs} (max diff {np.max(np.abs(gm - em)):.3e})")


def judge_split(case):
    j = J()
    n, refs = case["n"], case["refs"]
    k = len(refs)
    j.tag(f"n={n}", f"k={k}")
    j.nontrivial(refs != sorted(refs) or refs != list(range(k)))
    N = 40
    t = np.arange(N)
    d1 = (1000.0 * (np.arange(n)[None, :] + 1) + t[:, None]).astype(float)
    # a second dataset with another (fixed) layout and the same number of references
    n2 = k + 2
    refs2 = list(range(n2 - 1, n2 - 1 - k, -1))
    d2 = (50000.0 + 1000.0 * (np.arange(n2)[None, :] + 1) + t[:, None]).astype(float)
    # the reference indices in any of their equivalent forms: lists, tuples, integer arrays, lists of numpy integers
    form = ["lists", "tuples", "arrays", "npints"][(7 * n + sum(refs) + 3 * k) % 4]
    conv = {"lists": list, "tuples": tuple, "arrays": lambda r_: np.array(r_, dtype=int), "npints": lambda r_: [np.int64(v) for v in r_]}[form]
    j.tag("ref_ind:" + form)
    out = sut(gen.pre_multisetup, [d1.copy(), d2.copy()], [conv(refs), conv(refs2)])
    if j.check(not raised(out), "split-raises", lambda: f"{out!r}"):
        if j.check(isinstance(out, list) and len(out) == 2, "split-len", lambda: f"{type(out)}"):
            _cmp_split(j, "split", out[0], d1, refs)
            _cmp_split(j, "split2", out[1], d2, refs2)
    ms = sut(lambda: MultiSetup_PreGER(fs=100.0, ref_ind=[conv(refs), conv(refs2)], datasets=[d1.copy(), d2.copy()]))
    if not j.check(not raised(ms), "preger-raises", lambda: f"{ms!r}"):
        return j
    _cmp_split(j, "preger", ms.data[0], d1, refs)
    _cmp_split(j, "preger2", ms.data[1], d2, refs2)
    # after each preprocessing step (from the initial state)
    # smooth data for the filters: add a slow oscillation so that the numbers stay channel-specific
    for name, op, ref_op in (
        ("detrend", lambda m: m.detrend_data(), lambda d: signal.detrend(d, axis=0)),
        ("decimate", lambda m: m.decimate_data(q=2), lambda d: signal.decimate(d, 2, axis=0)),
        ("filter", lambda m: m.filter_data(Wn=20.0, order=2, btype="lowpass"), lambda d: signal.sosfiltfilt(signal.butter(2, 20.0, btype="lowpass", output="sos", fs=100.0), d, axis=0)),
    ):
        m2 = MultiSetup_PreGER(fs=100.0, ref_ind=[conv(refs), conv(refs2)], datasets=[d1.copy(), d2.copy()])
        r = sut(op, m2)
        if not j.check(not raised(r), f"{name}-raises", lambda: f"{r!r}"):
            continue
        _cmp_split(j, f"after-{name}", m2.data[0], ref_op(d1), refs, tol=1e-12)
        _cmp_split(j, f"after-{name}2", m2.data[1], ref_op(d2), refs2, tol=1e-12)
    return j


# ---------------------------------------------------------------------------
# identification
# ---------------------------------------------------------------------------
@st.composite
def ms_case(draw, method):
    lay = draw(layout(2, 4, 3, 4, nrov_min=1))
    s = draw(modal.system(1, 5, lay["ntot"], lay["ntot"]))
    m = len(s["fr"])
    k = lay["nref"]
    for mode in range(m):  # every mode visible at the references (construction)
        if max(abs(s["phi"][mode][r][0]) + abs(s["phi"][mode][r][1]) for r in range(k)) < 0.2:
            s["phi"][mode][draw(st.integers(0, k - 1))][0] = draw(st.sampled_from([1.0, -0.6]))
    nu = modal.obs_index(s, list(range(k)))  # observability index of the reference outputs
    if nu is None:
        nu = 2 * m
    br = nu + 1 + draw(st.integers(0, 4))
    gains = [draw(st.floats(-2, 2)) for _ in lay["setups"]]
    amps = [[[draw(st.floats(0.3, 3)), draw(st.floats(-3.1, 3.1))] for _ in range(m)] for _ in lay["setups"]]
    return {"layout": lay, "sys": s, "gains": gains, "amps": amps, "br": br, "method": method, "extraN": draw(st.integers(0, 200)),
            "ordextra": draw(st.sampled_from([0, 0, 0, 1, 2, 3, "top"])),  # the user asks for more orders than 2m (up to the largest admissible one)
            "extraNs": [draw(st.sampled_from([0, 0, 37, 150, 400])) for _ in lay["setups"]]}  # setups may have records of different lengths


def _build(case):
    lay = case["layout"]
    S = modal.Sys(case["sys"])
    br = case["br"]
    datasets, refl = [], []
    nmax = max(len(s["chan"]) for s in lay["setups"])
    N = 4 * (br + 1) * (nmax + lay["nref"]) + 2 * br + 40 + case["extraN"]
    for i, s in enumerate(lay["setups"]):
        amps = [a * complex(math.cos(p), math.sin(p)) for a, p in case["amps"][i]]
        Y = (10.0 ** case["gains"][i]) * S.free_decay(amps, N + (case.get("extraNs") or [0] * 9)[i], channels=s["chan"])
        datasets.append(Y)
        refl.append(list(s["ref_ind"]))
    return S, datasets, refl


def _judge_modes(j, S, fn, xi, phi, lam, tol, tag):
    """phi (npoles, ndof) ordered [refs; roving per setup] = global sensor order by construction"""
    from .c01 import _judge_column

    _judge_column(j, S, fn, xi, phi, lam, tol, tag)


def judge_ms(case, level):
    j = J()
    lay = case["layout"]
    S, datasets, refl = _build(case)
    m, k, br = S.m, lay["nref"], case["br"]
    method = case["method"]
    unequal = len({len(s["chan"]) for s in lay["setups"]}) > 1
    nonid = any(s["ref_ind"] != list(range(k)) for s in lay["setups"])
    j.tag(method, f"m={m}", "complex" if case["sys"]["complex"] else "real", "refs_moved" if nonid else "refs_leading")
    j.nontrivial(m >= 2 and (unequal or nonid))
    if len({d.shape[0] for d in datasets}) > 1:
        j.tag("record-lengths-differ")
    for mode in range(m):
        p = S.Phi[:, mode]
        if np.all(p == p[0]):
            j.skip("excluded_known:C18-mpc-all-equal")
            return j
    kappa = 0.0
    for Y, rl in zip(datasets, refl):
        kappa = max(kappa, _kappa_data(Y, rl, br, m))
        # the re-basing uses br block rows of the reference part only
        Yr = Y[:, rl]
        Nn = Yr.shape[0] - 2 * br - 1
        Or = np.vstack([Yr[br + 2 + i : Nn + br + 1 + i].T for i in range(br)])
        sv = np.linalg.svd(Or, compute_uv=False)
        kappa = max(kappa, sv[0] / sv[2 * m - 1] if len(sv) >= 2 * m and sv[2 * m - 1] > 0 else np.inf)
    if not kappa <= KAPPA_MAX:
        j.skip("kappa>1e6")
        return j
    tol = 10 * CTOL * kappa
    top = (br + 1) * k  # number of columns of a setup's block matrix: the largest order that can be asked for
    oe = case.get("ordextra", 0)
    ordmax = top if oe == "top" else min(2 * m + int(oe), top)
    n2 = 2 * m  # the order at which the tables are judged
    if ordmax > n2:
        j.tag("ordmax>2m")
    if level == "function":
        Ydict = sut(gen.pre_multisetup, [d.copy() for d in datasets], [list(r) for r in refl])
        if not j.check(not raised(Ydict), "split-raises", lambda: f"{Ydict!r}"):
            return j
        if case.get("extraN", 0) % 2:
            # the same dictionaries written with the roving block first (key order carries no meaning)
            Ydict = [dict(mov=d_["mov"], ref=d_["ref"]) if i_ % 2 == 0 else d_ for i_, d_ in enumerate(Ydict)]
            j.tag("dict-keys-mov-first")
        out = sut(ssi.SSI_multi_setup, Ydict, S.fs, br, ordmax, method_hank=method)
        if raised(out) and out.type == "LinAlgError" and ordmax > n2:
            j.skip("singular-above-the-true-order")  # exact data have rank 2m: orders above it may be exactly singular
            return j
        if not j.check(not raised(out), "ms-raises", lambda: f"{out!r}"):
            return j
        Obs, A, C = out
        pol = sut(ssi.SSI_poles, Obs, A, C, ordmax, S.dt)
        if not j.check(not raised(pol), "ms-poles-raises", lambda: f"{pol!r}"):
            return j
        Fn, Xi, Phi, Lam = pol[0], pol[1], pol[2], pol[3]
        if j.check(Phi.shape == (ordmax, ordmax + 1, lay["ntot"]), "ms-shape", lambda: f"{Phi.shape} expected {(ordmax, ordmax + 1, lay['ntot'])}"):
            _judge_modes(j, S, Fn[:, n2], Xi[:, n2], Phi[:, n2, :], Lam[:, n2], tol, "ms")
        return j
    ms = sut(lambda: MultiSetup_PreGER(fs=S.fs, ref_ind=[list(r) for r in refl], datasets=[d.copy() for d in datasets]))
    if not j.check(not raised(ms), "preger-raises", lambda: f"{ms!r}"):
        return j
    cls = SSIcov_MS if method == "cov_mm" else SSIdat_MS
    kw = dict(name="a", br=br, ordmax=ordmax, hc=dict(NEUTRAL_HC), sc=dict(NEUTRAL_SC))
    if method == "cov_mm":
        kw["method"] = "cov_mm"
    alg = cls(**kw)
    ms.add_algorithms(alg)
    r = sut(ms.run_all)
    if raised(r) and r.type == "LinAlgError" and ordmax > n2:
        j.skip("singular-above-the-true-order")
        return j
    if not j.check(not raised(r), "run-raises", lambda: f"{r!r}"):
        return j
    res = alg.result
    Fn, Xi, Phi, Lam = np.asarray(res.Fn_poles), np.asarray(res.Xi_poles), np.asarray(res.Phi_poles), np.asarray(res.Lambds)
    if not j.check(Phi.shape == (ordmax, ordmax + 1, lay["ntot"]), "table-shape", lambda: f"{Phi.shape}"):
        return j
    for i_, (d_, rl_) in enumerate(zip(datasets, refl)):
        mv_ = [c for c in range(d_.shape[1]) if c not in rl_]
        j.check(np.array_equal(ms.data[i_]["ref"], d_[:, rl_].T) and np.array_equal(ms.data[i_]["mov"], d_[:, mv_].T), "data-mutated", lambda: f"dataset {i_}: the split data changed during the run")
    _judge_modes(j, S, Fn[:, n2], Xi[:, n2], Phi[:, n2, :], Lam[:, n2], tol, "table")
    # a second run on the same multi-setup object must see the same data and give the same tables
    snap = [(d["ref"].copy(), d["mov"].copy()) for d in ms.data]
    r = sut(ms.run_all)
    if j.check(not raised(r), "rerun-raises", lambda: f"{r!r}"):
        res = alg.result
        j.check(all(np.array_equal(d["ref"], a) and np.array_equal(d["mov"], b) for d, (a, b) in zip(ms.data, snap)), "data-mutated", "the multi-setup object's data changed during a run")
        same = np.array_equal(np.asarray(res.Fn_poles), Fn, equal_nan=True) and np.array_equal(np.asarray(res.Phi_poles), Phi, equal_nan=True)
        j.check(same, "rerun-differs", "a second run of the same algorithm on the same multi-setup object gives different pole tables")
    r = sut(ms.mpe, "a", sel_freq=[float(f) for f in S.fn], order=n2, rtol=1e-3)
    if j.check(not raised(r), "mpe-raises", lambda: f"{r!r}"):
        fn, xi, phi = np.asarray(res.Fn), np.asarray(res.Xi), np.asarray(res.Phi)
        if j.check(fn.shape == (m,) and phi.shape == (lay["ntot"], m), "mpe-shape", lambda: f"{fn.shape} {phi.shape}"):
            for q in range(m):
                j.check(abs(fn[q] - S.fn[q]) <= tol * S.fn[q], "mpe-fn", lambda: f"mode {q}: {fn[q]!r} vs {S.fn[q]!r}")
                j.check(abs(xi[q] - S.xi[q]) <= tol, "mpe-xi", lambda: f"mode {q}: {xi[q]!r} vs {S.xi[q]!r}")
                em = 1 - max(mac(phi[:, q], S.Phi[:, q]), mac(phi[:, q], np.conj(S.Phi[:, q])))
                j.check(em <= max(tol, 1e-12), "mpe-mac", lambda: f"mode {q}: 1-MAC={em:.3e} got={np.round(phi[:, q], 4).tolist()} global={np.round(S.Phi[:, q], 4).tolist()}")
    return j


def _mk(method, level):
    return lambda case: judge_ms(case, level)


SUBS = [
    Sub("split_exhaustive", judge_split, enum=enum_split, shards_quick=16, shards_thorough=16,
        rule="gen.pre_multisetup and MultiSetup_PreGER.data (also after detrend / decimate / filter) for all 2365 ordered reference subsets of 1..6 channels: "
             "ref[j] is channel ref_ind[j], mov the remaining channels ascending, every sample intact"),
    Sub("function_cov_mm", _mk("cov_mm", "function"), ms_case("cov_mm"), quick=200, thorough=8000, rule="ssi.SSI_multi_setup + SSI_poles ('cov_mm') at order 2m equal the global system"),
    Sub("function_dat", _mk("dat", "function"), ms_case("dat"), quick=200, thorough=8000, rule="ssi.SSI_multi_setup + SSI_poles ('dat') at order 2m equal the global system"),
    Sub("setup_cov_mm", _mk("cov_mm", "setup"), ms_case("cov_mm"), quick=200, thorough=8000, rule="MultiSetup_PreGER + SSIcov_MS: tables at order 2m and mpe(order=2m) equal the global system"),
    Sub("setup_dat", _mk("dat", "setup"), ms_case("dat"), quick=200, thorough=8000, rule="MultiSetup_PreGER + SSIdat_MS: tables at order 2m and mpe(order=2m) equal the global system"),
]
