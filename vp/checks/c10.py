"""C10 - stability labels follow the soft criteria between consecutive orders."""
from __future__ import annotations

import numpy as np
from hypothesis import strategies as st

from pyoma2.algorithms import SSIcov, SSIcov_MS, SSIdat, SSIdat_MS, pLSCF, pLSCF_MS
from pyoma2.functions import gen
from pyoma2.setup import MultiSetup_PreGER, SingleSetup

from .. import modal, tables
from ..core import J, Sub, mac, raised, rng_of, sut

PROPERTY = "C10"
RULE = (
    "pole tables up to 12 rows x 40 orders with drawn NaN patterns, conjugate duplicates, clusters, complex shapes, "
    "ordmin in [0, ordmax], drawn tolerance triples; reference model of the label rule; "
    "non-trivial = table with a NaN in a compared column and both labels present"
)
ASSUMPTIONS = [
    "nearest-frequency ties (conjugate duplicates) are accepted in any resolution; values within a relative 1e-9 of a tolerance are not judged",
    "relative differences are taken with respect to the current pole (the library's convention)",
    "pLSCF: the library's column-index convention is used as the order value; the one column where the two readings of ordmin differ is not judged",
]

GB = 1e-9


def model_labels(Fn, Xi, Phi, cmin, cmax, efn, exi, ephi):
    """-> int array: 1 stable, 0 unstable, -1 either/not judged."""
    R, C = Fn.shape
    exp = np.zeros((R, C), dtype=int)
    for o in range(C):
        if o < cmin or o > cmax or o == 0:
            continue
        prev = Fn[:, o - 1]
        fin_prev = np.isfinite(prev)
        for i in range(R):
            f = Fn[i, o]
            if not np.isfinite(f) or not fin_prev.any():
                continue
            d = np.abs(prev - f)
            dmin = np.nanmin(d)
            cand = [k for k in range(R) if fin_prev[k] and d[k] == dmin]
            verdicts = []
            for k in cand:
                c1 = abs(f - prev[k]) / f
                c2 = abs(Xi[i, o] - Xi[k, o - 1]) / Xi[i, o]
                c3 = 1 - mac(Phi[i, o], Phi[k, o - 1])
                if any(abs(c - t) <= GB * max(t, 1e-300) or abs(c - t) <= 1e-13 for c, t in ((c1, efn), (c2, exi), (c3, ephi))):
                    verdicts.append(-1)
                elif not (np.isfinite(c1) and np.isfinite(c2) and np.isfinite(c3)):
                    verdicts.append(0)
                else:
                    verdicts.append(1 if (c1 < efn and c2 < exi and c3 < ephi) else 0)
            if all(v == 1 for v in verdicts):
                exp[i, o] = 1
            elif all(v == 0 for v in verdicts):
                exp[i, o] = 0
            else:
                exp[i, o] = -1
    return exp


def compare_labels(j, Lab, exp, Fn, tag):
    Lab = np.asarray(Lab)
    if not j.check(Lab.shape == exp.shape, f"{tag}-shape", lambda: f"{Lab.shape} vs {exp.shape}"):
        return
    j.check(np.all((Lab == 0) | (Lab == 1)), f"{tag}-values", lambda: f"labels other than 0/1: {np.unique(Lab).tolist()}")
    judged = exp >= 0
    bad = judged & (Lab != exp)
    nb = int(bad.sum())
    if nb:
        i, o = [int(v[0]) for v in np.nonzero(bad)]
        j.fail(f"{tag}-label", f"{nb} cells differ, e.g. row {i} column {o}: label {int(Lab[i, o])}, model {int(exp[i, o])}, fn={Fn[i, o]!r}, previous column fn={Fn[:, o-1].tolist()}")
    else:
        j.nchecks += int(judged.sum())
    nan_stable = np.isnan(Fn) & (Lab == 1)
    j.check(not nan_stable.any(), f"{tag}-nan-stable", "a NaN pole is labelled stable")
    nj = int((~judged).sum())
    if nj:
        j.skip(f"{tag}-tie-or-threshold-cells")


@st.composite
def function_case(draw):
    tc = draw(tables.table_case())
    C = tc["cols"]
    ordmax = draw(st.integers(0, C - 1)) if draw(st.booleans()) else C - 1
    ordmin = draw(st.integers(0, ordmax))
    return {"table": tc, "ordmin": ordmin, "ordmax": ordmax,
            "err_fn": draw(st.sampled_from([0.01, 0.001, 0.05, 0.2])),
            "err_xi": draw(st.sampled_from([0.05, 0.01, 0.3, 1.5])),
            "err_phi": draw(st.sampled_from([0.03, 0.001, 0.2, 1.1, 1e-7, 3e-6])),
            "phiscale": draw(st.sampled_from([0, 0, 6, 12])),  # un-normalised mode shapes: every pole's shape times 10^u, |u| <= phiscale
            "between": draw(st.sampled_from([0.0, 0.0, 1e-3, 1e-2, 0.1]))}  # some poles moved (almost) half-way between two poles of the previous order


def judge_function(case):
    j = J()
    t = tables.build(case["table"])
    Fn, Xi, Phi = t["Fn"], t["Xi"], t["Phi"]
    if case.get("between"):
        # which previous-order pole is the closest one is then decided by a small margin (on either side of the midpoint)
        Fn = Fn.copy()
        r_ = rng_of(case["table"]["seed"] + 78)
        for o in range(1, Fn.shape[1]):
            prev = np.sort(Fn[np.isfinite(Fn[:, o - 1]), o - 1])
            rows = np.nonzero(np.isfinite(Fn[:, o]))[0]
            if len(prev) >= 2 and len(rows) and prev[-1] > prev[0]:
                k = int(r_.integers(0, len(prev) - 1))
                Fn[int(r_.choice(rows)), o] = 0.5 * (prev[k] + prev[k + 1]) + case["between"] * float(r_.choice([-1.0, 1.0])) * 0.5 * (prev[k + 1] - prev[k])
        j.tag("pole-between-two-previous")
    if case.get("phiscale"):
        u = rng_of(case["table"]["seed"] + 77).uniform(-case["phiscale"], case["phiscale"], size=Fn.shape)
        Phi = Phi * (10.0 ** u)[:, :, None]
        j.tag("unnormalised-shapes")
    a, b, c = Fn.copy(), Xi.copy(), Phi.copy()
    args = (case["ordmin"], case["ordmax"], 1, case["err_fn"], case["err_xi"], case["err_phi"])
    Lab = sut(gen.SC_apply, a, b, c, *args)
    if not j.check(not raised(Lab), "sc-raises", lambda: f"{Lab!r}"):
        return j
    exp = model_labels(Fn, Xi, Phi, case["ordmin"], case["ordmax"], case["err_fn"], case["err_xi"], case["err_phi"])
    compare_labels(j, Lab, exp, Fn, "sc")
    j.check(np.array_equal(a, Fn, equal_nan=True) and np.array_equal(b, Xi, equal_nan=True) and np.array_equal(c, Phi, equal_nan=True), "sc-mutates", "input tables modified")
    Lab2 = sut(gen.SC_apply, Fn.copy(), Xi.copy(), Phi.copy(), *args)
    j.check(not raised(Lab2) and np.array_equal(np.asarray(Lab), np.asarray(Lab2)), "sc-pure", "same tables gave different labels")
    has_nan = bool(np.isnan(Fn[:, max(case["ordmin"] - 1, 0) : case["ordmax"] + 1]).any())
    both = bool((np.asarray(Lab) == 1).any() and ((np.asarray(Lab) == 0) & np.isfinite(Fn)).any())
    j.tag("dup" if case["table"]["dup"] else "nodup", "complex" if case["table"]["complex"] else "real", "has_nan" if has_nan else "no_nan", "both_labels" if both else "one_label")
    j.nontrivial(has_nan and both)
    return j


# ---------------------------------------------------------------------------
# class level
# ---------------------------------------------------------------------------
@st.composite
def class_case(draw):
    s = draw(modal.system(1, 3, 2, 4, xi_lo=0.005, xi_hi=0.05, fr_lo=0.03, fr_hi=0.4))
    alg = draw(st.sampled_from(["SSIcov", "SSIdat", "pLSCF", "SSIcov", "SSIdat", "pLSCF", "SSIcov_MS", "SSIdat_MS", "pLSCF_MS"]))
    ordmax = draw(st.integers(4, 14))
    return {"sys": s, "alg": alg, "ordmax": ordmax, "ordmin": draw(st.integers(0, ordmax)), "br": draw(st.integers(8, 14)),
            "N": draw(st.integers(1500, 3000)), "seed": draw(st.integers(0, 2**32 - 1)), "noise": draw(st.sampled_from([0.02, 0.2])),
            "err_fn": draw(st.sampled_from([0.01, 0.05])), "err_xi": draw(st.sampled_from([0.05, 0.3])), "err_phi": draw(st.sampled_from([0.03, 0.2])),
            "nxseg": draw(st.sampled_from([128, 256])), "unc": draw(st.integers(0, 2)) == 0, "covq": draw(st.sampled_from([0.3, 0.6, 0.9])),
            "keyorder": draw(st.permutations(["err_fn", "err_xi", "err_phi"])),
            # in a third of the cases the same object ran before with another order range / other tolerances
            "first": draw(st.one_of(st.none(), st.none(), st.fixed_dictionaries({"ordmin": st.integers(0, 4), "err_fn": st.sampled_from([0.001, 0.2]), "same_sc": st.booleans()})))}


def judge_class(case):
    j = J()
    S = modal.Sys(case["sys"])
    Y = modal.random_response(S, case["N"], case["seed"], noise=case["noise"])
    sc = {k_: case[k_] for k_ in case.get("keyorder", ["err_fn", "err_xi", "err_phi"])}  # the user's own key order
    an = case["alg"]
    if an.endswith("_MS") and S.nch < 3:
        an = an[:-3]
    ms = an.endswith("_MS")
    if ms:
        # two setups sharing channel 0 as reference
        chans = [[0] + list(range(1, 1 + (S.nch - 1) // 2)), [0] + list(range(1 + (S.nch - 1) // 2, S.nch))]
        ss = MultiSetup_PreGER(fs=S.fs, ref_ind=[[0], [0]], datasets=[modal.random_response(S, case["N"], case["seed"] + i_, noise=case["noise"], channels=c_) for i_, c_ in enumerate(chans)])
    else:
        ss = SingleSetup(Y, fs=S.fs)
    j.tag(an)
    unc = an == "SSIcov" and bool(case.get("unc"))
    if an.startswith("pLSCF"):
        alg = (pLSCF_MS if ms else pLSCF)(name="a", ordmax=case["ordmax"], ordmin=case["ordmin"], nxseg=case["nxseg"], sc=sc)
    else:
        cls = {"SSIcov": SSIcov, "SSIdat": SSIdat, "SSIcov_MS": SSIcov_MS, "SSIdat_MS": SSIdat_MS}[an]
        omax = min(case["ordmax"], 10) if unc else (min(case["ordmax"], case["br"]) if ms else case["ordmax"])  # one reference: order <= br
        kw = dict(name="a", br=case["br"], ordmax=omax, ordmin=min(case["ordmin"], omax), sc=sc)
        if unc:
            # a covariance limit that really rejects poles: a quantile of the variances of a first, unrestricted run
            probe = SSIcov(name="p", calc_unc=True, nb=10, hc=dict(conj=True, xi_max=0.1, mpc_lim=0.7, mpd_lim=0.3, cov_max=1e300), **{k_: v for k_, v in kw.items() if k_ != "name"})
            ss.add_algorithms(probe)
            rp = sut(ss.run_by_name, "p")
            cv = None if raised(rp) else np.asarray(probe.result.Fn_poles_cov)
            if cv is None or not np.isfinite(cv).any():
                unc = False
            else:
                kw.update(calc_unc=True, nb=10, hc=dict(conj=True, xi_max=0.1, mpc_lim=0.7, mpd_lim=0.3, cov_max=float(np.nanquantile(cv, case.get("covq", 0.5)))))
                j.tag("calc_unc")
        alg = cls(**kw)
    ss.add_algorithms(alg)
    if case.get("first"):
        f = case["first"]
        fin_ordmin, fin_sc = alg.run_params.ordmin, alg.run_params.sc
        alg.run_params.ordmin = min(f["ordmin"], fin_ordmin if fin_ordmin > 0 else f["ordmin"], case["ordmax"] - 1)
        if not f["same_sc"]:
            alg.run_params.sc = dict(fin_sc, err_fn=f["err_fn"])
        r0 = sut(ss.run_by_name, "a")
        alg.run_params.ordmin, alg.run_params.sc = fin_ordmin, fin_sc
        j.tag("parameters-changed-before-rerun")
        if raised(r0):
            j.skip("first-run-raised")
            return j
    r = sut(ss.run_by_name, "a")
    if not j.check(not raised(r), "class-run-raises", lambda: f"{r!r}"):
        return j
    if not an.startswith("pLSCF"):
        case = dict(case, ordmax=kw["ordmax"], ordmin=kw["ordmin"])
    res = alg.result
    Fn, Xi, Phi, Lab = np.asarray(res.Fn_poles), np.asarray(res.Xi_poles), np.asarray(res.Phi_poles), np.asarray(res.Lab)
    C = Fn.shape[1]
    if an.startswith("pLSCF"):
        j.check(C == case["ordmax"], "class-columns", lambda: f"{C} columns for ordmax {case['ordmax']}")
        cmin, cmax = case["ordmin"], case["ordmax"] - 1
    else:
        j.check(C == case["ordmax"] + 1, "class-columns", lambda: f"{C} columns for ordmax {case['ordmax']}")
        cmin, cmax = case["ordmin"], case["ordmax"]
    exp = model_labels(Fn, Xi, Phi, cmin, min(cmax, C - 1), case["err_fn"], case["err_xi"], case["err_phi"])
    if an.startswith("pLSCF") and cmin >= 1:
        exp[:, cmin - 1] = np.where(exp[:, cmin - 1] == 0, -1, exp[:, cmin - 1])  # order-value reading of ordmin: not judged
    compare_labels(j, Lab, exp, Fn, "class")
    both = bool((Lab == 1).any() and ((Lab == 0) & np.isfinite(Fn)).any())
    j.tag("both_labels" if both else "one_label")
    j.nontrivial(both and bool(np.isnan(Fn).any()))
    return j


SUBS = [
    Sub("function", judge_function, function_case(), quick=2000, thorough=160000,
        rule="gen.SC_apply on generated tables equals the reference label model; inputs not mutated; repeated call identical"),
    Sub("classes", judge_class, class_case(), quick=96, thorough=8000,
        rule="result.Lab of SSIcov/SSIdat/pLSCF runs on noisy random-response data equals the model applied to the filtered result tables"),
]
