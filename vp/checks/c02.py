"""C02 - PoSER merging reproduces the global mode shape from re-scaled setups."""
from __future__ import annotations

import math

import numpy as np
from hypothesis import strategies as st

from pyoma2.algorithms import EFDD, FSDD, SSIcov, SSIdat, pLSCF
from pyoma2.algorithms.data.result import EFDDResult, SSIResult, pLSCFResult
from pyoma2.functions import gen
from pyoma2.setup import MultiSetup_PoSER, SingleSetup

from .. import modal
from ..core import J, Sub, mac, raised, sut, unit_norm
from .c01 import NEUTRAL_HC, NEUTRAL_SC

PROPERTY = "C02"
RULE = (
    "global mode-shape matrices (1..8 modes, real/complex), 2..5 setups, 1..4 references at drawn positions and in drawn "
    "order inside each setup's channel list, 0..5 roving sensors, real factors |c| in [0.05,20] of either sign per setup and mode; "
    "oracle = c_1k*[Phi_ref; Phi_rov_1; ...]; non-trivial = some |c| outside [0.5,2] and a roving sensor in a setup other than the first"
)
ASSUMPTIONS = [
    "complex shapes judged only when |phi_ref^T phi_ref| >= 0.05 phi_ref^H phi_ref (the least-squares scale factor is undefined otherwise)",
    "end-to-end sub-check uses real mode shapes: per-setup unity normalisation of complex shapes differs by a complex factor, which a real modal scale factor cannot undo",
]


# ---------------------------------------------------------------------------
# layouts
# ---------------------------------------------------------------------------
@st.composite
def layout(draw, ns_min=2, ns_max=5, nref_max=4, nrov_max=5, nrov_min=0):
    """Returns {"nref": k, "setups": [{"chan": [global sensor ids in channel order], "ref_ind": [positions]}]}.
    Global sensors 0..k-1 are the references; the roving sensors get increasing ids in setup order
    and ascending channel order (the order the merged shape must follow)."""
    ns = draw(st.integers(ns_min, ns_max))
    k = draw(st.integers(1, nref_max))
    setups = []
    nxt = k
    for _ in range(ns):
        nrov = draw(st.integers(nrov_min, nrov_max))
        n = k + nrov
        pos = draw(st.lists(st.integers(0, n - 1), min_size=k, max_size=k, unique=True))  # ref_ind: position of REFj
        if draw(st.booleans()):
            pos = sorted(pos)
        chan = [None] * n
        for jref, p in enumerate(pos):
            chan[p] = jref
        for p in range(n):
            if chan[p] is None:
                chan[p] = nxt
                nxt += 1
        setups.append({"chan": chan, "ref_ind": pos})
    return {"nref": k, "ntot": nxt, "setups": setups}


_cval = st.one_of(
    st.floats(0.05, 20).map(lambda x: float(x)),
    st.floats(-20, -0.05).map(lambda x: float(x)),
    st.sampled_from([1.0, -1.0, 0.05, 20.0, -0.07, 12.5]),
)


@st.composite
def merge_case(draw):
    lay = draw(layout())
    M = draw(st.integers(1, 8))
    cplx = draw(st.booleans())
    ent = st.floats(-1, 1, allow_nan=False, allow_subnormal=False, width=64).map(lambda x: 0.0 if abs(x) < 1e-6 else x)
    N = lay["ntot"]
    re = [[draw(ent) for _ in range(M)] for _ in range(N)]
    im = [[draw(ent) if cplx else 0.0 for _ in range(M)] for _ in range(N)]
    # every mode visible at the references (construction)
    for k in range(M):
        if max(abs(re[r][k]) for r in range(lay["nref"])) < 0.1:
            re[draw(st.integers(0, lay["nref"] - 1))][k] = draw(st.sampled_from([1.0, -0.7, 0.4]))
    c = [[draw(_cval) for _ in range(M)] for _ in lay["setups"]]
    return {"layout": lay, "re": re, "im": im, "c": c, "complex": cplx, "ints": (not cplx) and draw(st.integers(0, 4)) == 0, "idtype": draw(st.sampled_from(["int64", "int32"]))}


def _expected(case):
    lay = case["layout"]
    Phi = np.asarray(case["re"], float) + 1j * np.asarray(case["im"], float)  # (Ntot, M)
    c = np.asarray(case["c"], float)  # (ns, M)
    if case.get("ints"):
        # hand-typed whole-number shapes: every setup's array has an integer dtype, the merged values are fractions
        k = lay["nref"]
        c = np.where(np.rint(c * 3) == 0, 1.0, np.rint(c * 3))
        P = np.rint(Phi.real * 6)
        for mode in range(P.shape[1]):
            if not np.any(P[:k, mode]):
                P[0, mode] = 1.0
        Phi = P.astype(complex)
        for i, s in enumerate(lay["setups"]):
            for g in s["chan"]:
                if g >= k:
                    Phi[g, :] = P[g, :] / c[i]
        shapes = [np.rint((c[i][None, :] * Phi[s["chan"], :]).real).astype(case.get("idtype", "int64")) for i, s in enumerate(lay["setups"])]
        return Phi, c, shapes, c[0][None, :] * Phi
    shapes = [c[i][None, :] * Phi[s["chan"], :] for i, s in enumerate(lay["setups"])]
    exp = c[0][None, :] * Phi  # global order is by construction refs then roving in setup/channel order
    return Phi, c, shapes, exp


def _nontrivial(j, case):
    lay = case["layout"]
    c = np.abs(np.asarray(case["c"], float))
    rov_later = any(len(s["chan"]) > lay["nref"] for s in lay["setups"][1:])
    unsorted = any(s["ref_ind"] != sorted(s["ref_ind"]) for s in lay["setups"])
    notlead = any(sorted(s["ref_ind"]) != list(range(lay["nref"])) for s in lay["setups"])
    j.tag("complex" if case.get("complex") else "real")
    if case.get("ints"):
        j.tag("integer-dtype")
    if unsorted:
        j.tag("ref_order_permuted")
    if notlead:
        j.tag("refs_not_leading")
    ratio = c[1:] / c[0][None, :]
    far = bool(np.any((ratio < 0.5) | (ratio > 2)))
    j.tag("scale_far" if far else "scale_near")
    j.nontrivial(far and rov_later)


def judge_merge(case):
    j = J()
    lay = case["layout"]
    Phi, c, shapes, exp = _expected(case)
    _nontrivial(j, case)
    k = lay["nref"]
    # guard for complex shapes
    ok_modes = []
    for mode in range(Phi.shape[1]):
        pr = Phi[:k, mode]
        g = abs(pr @ pr) / max(np.vdot(pr, pr).real, 1e-300)
        ok_modes.append(g >= 0.05)
    reflist = [list(s["ref_ind"]) for s in lay["setups"]]
    ins = [s.copy() for s in shapes]
    r = sut(gen.merge_mode_shapes, MSarr_list=ins, reflist=[list(x) for x in reflist])
    if not j.check(not raised(r), "merge-raises", lambda: f"{r!r}"):
        return j
    r = np.asarray(r)
    if not j.check(r.shape == exp.shape, "merge-shape", lambda: f"{r.shape} expected {exp.shape}"):
        return j
    for mode in range(Phi.shape[1]):
        if not ok_modes[mode]:
            j.skip("phiTphi-guard")
            continue
        e = exp[:, mode]
        err = np.max(np.abs(r[:, mode] - e)) / max(np.max(np.abs(e)), 1e-300)
        j.check(err <= 1e-9, "merge-value", lambda: f"mode {mode}: merged={np.round(r[:, mode], 6).tolist()} expected={np.round(e, 6).tolist()} c={c[:, mode].tolist()} reflist={reflist}")
    for a, b in zip(ins, shapes):
        j.check(np.array_equal(a, b), "merge-mutates-input", "input mode-shape array modified")
    # ordering cross-check against the geometry name flattening (list of lists and the row-table form)
    import pandas as pd

    names = [[("REFX%d" % g if g < k else "S%d" % g) for g in s["chan"]] for s in lay["setups"]]
    want = ["REF%d" % (i + 1) for i in range(k)] + ["S%d" % g for g in range(k, lay["ntot"])]
    w = max(len(r_) for r_ in names)
    table = pd.DataFrame([list(r_) + [np.nan] * (w - len(r_)) for r_ in names])
    # the row labels of the names sheet are the user's (read with index_col=0): they carry no order
    labels = [["north", "centre", "south", "east", "west"], [10, 20, 5, 7, 1], ["s3", "s1", "s2", "s0", "s9"]][len(names) % 3][: len(names)]
    table_lab = table.copy()
    table_lab.index = labels
    for form, obj in (("list", names), ("table", table), ("table-with-row-labels", table_lab)):
        fl = sut(gen.flatten_sns_names, obj, [list(x) for x in reflist])
        if j.check(not raised(fl), "flatten-raises", lambda: f"{form}: {fl!r}"):
            j.check(list(fl) == want, "flatten-order", lambda: f"{form}: {fl} expected {want}")
    return j


# ---------------------------------------------------------------------------
# MultiSetup_PoSER statistics
# ---------------------------------------------------------------------------
_ALGS = {
    "SSIcov": (SSIcov, SSIResult, dict(br=4)),
    "SSIdat": (SSIdat, SSIResult, dict(br=4)),
    "pLSCF": (pLSCF, pLSCFResult, dict(ordmax=4)),
    "EFDD": (EFDD, EFDDResult, dict()),
    "FSDD": (FSDD, EFDDResult, dict()),
}


@st.composite
def poser_case(draw):
    mc = draw(merge_case())
    ns = len(mc["layout"]["setups"])
    M = len(mc["c"][0])
    nalg = draw(st.integers(1, 3))
    algs = [draw(st.sampled_from(sorted(_ALGS))) for _ in range(nalg)]
    fn0 = sorted(draw(st.lists(st.floats(0.5, 50), min_size=M, max_size=M)))
    groups = []
    for a in range(nalg):
        fn = [[f * (1 + draw(st.floats(-0.05, 0.05))) for f in fn0] for _ in range(ns)]
        xi = [[draw(st.floats(0.001, 0.1)) for _ in range(M)] for _ in range(ns)]
        groups.append({"fn": fn, "xi": xi})
    return {"merge": mc, "algs": algs, "groups": groups}


def judge_poser(case):
    j = J()
    mc = case["merge"]
    lay = mc["layout"]
    Phi, c, shapes, exp = _expected(mc)
    _nontrivial(j, mc)
    ns = len(lay["setups"])
    names = [f"grp{a}_{n}" for a, n in enumerate(case["algs"])]
    j.tag(f"nalg={len(names)}")
    setups = []
    for i in range(ns):
        n = len(lay["setups"][i]["chan"])
        ss = SingleSetup(np.zeros((8, n)), fs=10.0)
        algs = []
        for a, an in enumerate(case["algs"]):
            cls, rcls, kw = _ALGS[an]
            alg = cls(name=f"{an}_{a}_s{i}", **kw) if kw else cls(name=f"{an}_{a}_s{i}", nxseg=64)
            algs.append(alg)
        ss.add_algorithms(*algs)
        for a, alg in enumerate(algs):
            g = case["groups"][a]
            # different algorithms get differently scaled copies so that groups cannot be confused
            alg._set_result(_ALGS[case["algs"][a]][1](Fn=np.array(g["fn"][i]), Xi=np.array(g["xi"][i]), Phi=(a + 1.0) * shapes[i]))
        setups.append(ss)
    reflist = [list(s["ref_ind"]) for s in lay["setups"]]
    ms = sut(lambda: MultiSetup_PoSER(ref_ind=reflist, single_setups=setups, names=names))
    if not j.check(not raised(ms), "poser-ctor-raises", lambda: f"{ms!r}"):
        return j
    res = sut(ms.merge_results)
    if not j.check(not raised(res), "poser-merge-raises", lambda: f"{res!r}"):
        return j
    if not j.check(sorted(res.keys()) == sorted(names), "poser-keys", lambda: f"{list(res.keys())} vs {names}"):
        return j
    k = lay["nref"]
    for a, nm in enumerate(names):
        g = case["groups"][a]
        fn = np.array(g["fn"])
        xi = np.array(g["xi"])
        r = res[nm]
        M = fn.shape[1]
        for mode in range(M):
            mf = math.fsum(fn[:, mode]) / ns
            mx = math.fsum(xi[:, mode]) / ns
            sf = math.sqrt(math.fsum((v - mf) ** 2 for v in fn[:, mode]) / ns)
            sx = math.sqrt(math.fsum((v - mx) ** 2 for v in xi[:, mode]) / ns)
            j.check(abs(r.Fn[mode] - mf) <= 1e-12 * mf, "poser-fn-mean", lambda: f"{r.Fn[mode]!r} vs {mf!r}")
            j.check(abs(r.Xi[mode] - mx) <= 1e-12 * mx, "poser-xi-mean", lambda: f"{r.Xi[mode]!r} vs {mx!r}")
            j.check(abs(r.Fn_cov[mode] - sf / mf) <= 1e-9 * (sf / mf) + 1e-14, "poser-fn-cov", lambda: f"{r.Fn_cov[mode]!r} vs {sf/mf!r}")
            j.check(abs(r.Xi_cov[mode] - sx / mx) <= 1e-9 * (sx / mx) + 1e-14, "poser-xi-cov", lambda: f"{r.Xi_cov[mode]!r} vs {sx/mx!r}")
            pr = Phi[:k, mode]
            if abs(pr @ pr) / max(np.vdot(pr, pr).real, 1e-300) < 0.05:
                j.skip("phiTphi-guard")
                continue
            e = (a + 1.0) * exp[:, mode]
            if not j.check(np.asarray(r.Phi).shape == exp.shape, "poser-phi-shape", lambda: f"group {nm}: merged Phi has shape {np.asarray(r.Phi).shape}, expected (sensors, modes) = {exp.shape}"):
                break
            got = np.asarray(r.Phi)[:, mode]
            err = np.max(np.abs(got - e)) / max(np.max(np.abs(e)), 1e-300)
            j.check(err <= 1e-9, "poser-phi", lambda: f"group {nm} mode {mode}: err={err:.3e} c={c[:, mode].tolist()}")
    # a new extraction on the setups followed by a second merge on the same object gives the new values
    for i in range(ns):
        for a, alg in enumerate(setups[i].algorithms.values()):
            g = case["groups"][a]
            alg._set_result(_ALGS[case["algs"][a]][1](Fn=1.5 * np.array(g["fn"][i]), Xi=np.array(g["xi"][i]), Phi=-(a + 2.0) * shapes[i]))
    res2 = sut(ms.merge_results)
    if j.check(not raised(res2), "poser-remerge-raises", lambda: f"{res2!r}"):
        for a, nm in enumerate(names):
            fn = 1.5 * np.array(case["groups"][a]["fn"])
            j.check(np.allclose(np.asarray(res2[nm].Fn), fn.mean(axis=0), rtol=1e-12), "poser-remerge-fn", lambda: f"group {nm}: second merge returns {np.asarray(res2[nm].Fn).tolist()}, expected {fn.mean(axis=0).tolist()}")
            e = -(a + 2.0) * exp
            okm = [abs(Phi[:k, mode] @ Phi[:k, mode]) / max(np.vdot(Phi[:k, mode], Phi[:k, mode]).real, 1e-300) >= 0.05 for mode in range(e.shape[1])]
            got = np.asarray(res2[nm].Phi)
            if not j.check(got.shape == e.shape, "poser-phi-shape", lambda: f"group {nm}: merged Phi has shape {got.shape}, expected {e.shape}"):
                continue
            bad = [mode for mode in range(e.shape[1]) if okm[mode] and np.max(np.abs(got[:, mode] - e[:, mode])) > 1e-9 * max(np.max(np.abs(e[:, mode])), 1e-300)]
            j.check(not bad, "poser-remerge-phi", lambda: f"group {nm}: second merge returns stale or wrong shapes for modes {bad}")
    # the first setup's algorithms are replaced by new objects of the same names (a repeated analysis), then a third merge
    new_algs = []
    okm = [abs(Phi[:k, mode] @ Phi[:k, mode]) / max(np.vdot(Phi[:k, mode], Phi[:k, mode]).real, 1e-300) >= 0.05 for mode in range(exp.shape[1])]
    for a, an in enumerate(case["algs"]):
        cls, rcls, kw = _ALGS[an]
        alg = cls(name=f"{an}_{a}_s0", **kw) if kw else cls(name=f"{an}_{a}_s0", nxseg=64)
        new_algs.append(alg)
    r_add = sut(setups[0].add_algorithms, *new_algs)
    if raised(r_add) or list(setups[0].algorithms.values()) != new_algs:
        j.skip("replacing-algorithms-not-supported")
        return j
    for a, alg in enumerate(new_algs):
        g = case["groups"][a]
        alg._set_result(_ALGS[case["algs"][a]][1](Fn=2.0 * np.array(g["fn"][0]), Xi=np.array(g["xi"][0]), Phi=(a + 3.0) * shapes[0]))
    res3 = sut(ms.merge_results)
    if j.check(not raised(res3), "poser-replaced-raises", lambda: f"{res3!r}"):
        for a, nm in enumerate(names):
            fn = 1.5 * np.array(case["groups"][a]["fn"])
            fn[0] = 2.0 * np.array(case["groups"][a]["fn"][0])
            j.check(np.allclose(np.asarray(res3[nm].Fn), fn.mean(axis=0), rtol=1e-12), "poser-replaced-fn", lambda: f"group {nm}: merge after the first setup's algorithm was replaced returns {np.asarray(res3[nm].Fn).tolist()}, expected {fn.mean(axis=0).tolist()}")
            e = (a + 3.0) * exp
            got = np.asarray(res3[nm].Phi)
            if not j.check(got.shape == e.shape, "poser-phi-shape", lambda: f"group {nm}: merged Phi has shape {got.shape}, expected {e.shape}"):
                continue
            bad = [mode for mode in range(e.shape[1]) if okm[mode] and np.max(np.abs(got[:, mode] - e[:, mode])) > 1e-9 * max(np.max(np.abs(e[:, mode])), 1e-300)]
            j.check(not bad, "poser-replaced-phi", lambda: f"group {nm}: merge after the first setup's algorithm was replaced returns stale or wrong shapes for modes {bad}")
    return j


# ---------------------------------------------------------------------------
# end to end: SSI per setup -> mpe -> PoSER
# ---------------------------------------------------------------------------
@st.composite
def e2e_case(draw):
    lay = draw(layout(2, 3, 3, 3, nrov_min=1))
    s = draw(modal.system(1, 3, lay["ntot"], lay["ntot"], allow_complex=False))
    m = len(s["fr"])
    k = lay["nref"]
    # all modes visible in the references (construction)
    for mode in range(m):
        if max(abs(s["phi"][mode][r][0]) for r in range(k)) < 0.2:
            s["phi"][mode][draw(st.integers(0, k - 1))][0] = draw(st.sampled_from([1.0, -0.6]))
    gains = [draw(st.floats(-2, 2)) for _ in lay["setups"]]
    amps = [[[draw(st.floats(0.3, 3)), draw(st.floats(-3.1, 3.1))] for _ in range(m)] for _ in lay["setups"]]
    br = math.ceil(2 * m / 2) + 2 + draw(st.integers(0, 3))
    return {"layout": lay, "sys": s, "gains": gains, "amps": amps, "br": br}


def judge_e2e(case):
    j = J()
    lay = case["layout"]
    S = modal.Sys(case["sys"])
    m = S.m
    j.tag(f"m={m}", f"ns={len(lay['setups'])}")
    j.nontrivial(m >= 2)
    setups = []
    kmax = 0.0
    from .c01 import _kappa_data

    datas = []
    br = case["br"]
    for i, s in enumerate(lay["setups"]):
        n = len(s["chan"])
        N = 4 * (br + 1) * (2 * n) + 2 * br + 60
        amps = [a * complex(math.cos(p), math.sin(p)) for a, p in case["amps"][i]]
        Y = (10.0 ** case["gains"][i]) * S.free_decay(amps, N, channels=s["chan"])
        kmax = max(kmax, _kappa_data(Y, list(range(n)), br, m))
        for mode in range(m):
            p = S.Phi[s["chan"], mode]
            if np.all(p == p[0]):
                j.skip("excluded_known:C18-mpc-all-equal")
                return j
        datas.append(Y)
    if not kmax <= 1e6:
        j.skip("kappa>1e6")
        return j
    for i, s in enumerate(lay["setups"]):
        n = len(s["chan"])
        ss = SingleSetup(datas[i], fs=S.fs)
        alg = SSIcov(name="ssi", br=br, method="cov_mm", ordmax=2 * m, hc=dict(NEUTRAL_HC), sc=dict(NEUTRAL_SC))
        ss.add_algorithms(alg)
        r = sut(ss.run_by_name, "ssi")
        r2 = sut(ss.mpe, "ssi", sel_freq=[float(f) for f in S.fn], order=2 * m, rtol=1e-3)
        if not j.check(not raised(r) and not raised(r2), "e2e-run-raises", lambda: f"{r!r} {r2!r}"):
            return j
        if not j.check(np.asarray(alg.result.Phi).shape == (n, m), "e2e-mpe-shape", lambda: f"{np.asarray(alg.result.Phi).shape}"):
            return j
        setups.append(ss)
    tol = 1e-8 * kmax
    reflist = [list(s["ref_ind"]) for s in lay["setups"]]
    ms = sut(lambda: MultiSetup_PoSER(ref_ind=reflist, single_setups=setups, names=["SSI"]))
    if not j.check(not raised(ms), "e2e-poser-raises", lambda: f"{ms!r}"):
        return j
    res = sut(ms.merge_results)
    if not j.check(not raised(res), "e2e-merge-raises", lambda: f"{res!r}"):
        return j
    P = np.asarray(res["SSI"].Phi)
    if not j.check(P.shape == (lay["ntot"], m), "e2e-shape", lambda: f"{P.shape}"):
        return j
    for mode in range(m):
        g = S.Phi[:, mode]
        j.check(1 - mac(P[:, mode], g) <= tol, "e2e-mac", lambda: f"mode {mode}: 1-MAC={1-mac(P[:,mode],g):.3e} merged={np.round(P[:,mode],4).tolist()} global={np.round(g,4).tolist()}")
        a, b = unit_norm(P[:, mode]), unit_norm(g)
        # ties in the largest component: compare after scaling by least squares instead
        sc = np.vdot(P[:, mode], g) / np.vdot(P[:, mode], P[:, mode])
        err = np.max(np.abs(sc * P[:, mode] - g)) / np.max(np.abs(g))
        j.check(err <= tol * 10, "e2e-elementwise", lambda: f"mode {mode}: err={err:.3e}")
        j.check(abs(res["SSI"].Fn[mode] - S.fn[mode]) <= tol * S.fn[mode], "e2e-fn", lambda: f"{res['SSI'].Fn[mode]} vs {S.fn[mode]}")
    return j


SUBS = [
    Sub("merge_function", judge_merge, merge_case(), quick=600, thorough=80000,
        rule="gen.merge_mode_shapes on restricted, re-scaled copies of one global matrix equals c_1k*[refs; roving per setup]; order cross-checked with flatten_sns_names"),
    Sub("poser_stats", judge_poser, poser_case(), quick=150, thorough=12000,
        rule="MultiSetup_PoSER.merge_results: Fn/Xi arithmetic means, population std / mean, merged Phi, one result per name"),
    Sub("end_to_end", judge_e2e, e2e_case(), quick=24, thorough=2400,
        rule="one global real-mode system, per-setup free decays with gains over 4 decades -> SSIcov -> mpe(order=2m) -> PoSER: merged shape equals the global one"),
]
