"""C06 - FDD picks the dominant line in the band and its singular vector."""
from __future__ import annotations

import math

import numpy as np
import scipy.linalg
from hypothesis import strategies as st

from pyoma2.algorithms import EFDD, FDD, FDD_MS, FSDD
from pyoma2.functions import fdd
from pyoma2.setup import MultiSetup_PreGER, SingleSetup

from .. import modal
from ..core import J, Sub, mac, raised, rng_of, sut

PROPERTY = "C06"
RULE = (
    "spectral sequences with 2..8 rows (Hermitian PSD = modal bells x dyads + full-rank floor, or n_all x n_ref half-spectra), grids of "
    "32..1024 lines, selected frequencies anywhere in the grid, DF >= one line spacing; oracle = independent scipy SVD per line; "
    "non-trivial = band of >= 5 lines containing a bell, or a half-spectrum"
)
ASSUMPTIONS = [
    "band limits are the grid lines nearest to sel -/+ DF; lines within one spacing of a limit are not used in the maximality test; ratios within 1e-9 are ties",
    "mode-shape comparison only where sigma1/sigma2 >= 1 + 1e-6 at the picked line",
]


def _spectrum(case):
    """-> freq (nf,), Sy (n_all, n_ref, nf) complex"""
    rng = rng_of(case["seed"])
    n, nf, fs = case["n"], case["nf"], case["fs"]
    freq = np.arange(nf) * (fs / 2) / (nf - 1)
    nm = case["nmodes"]
    f0 = np.sort(rng.uniform(0.05, 0.95, size=nm)) * fs / 2
    xi = rng.uniform(0.005, 0.05, size=nm)
    P = rng.normal(size=(n, nm)) + 1j * rng.normal(size=(n, nm)) * (1.0 if case["complex"] else 0.0)
    amp = 10.0 ** rng.uniform(-1, 1, size=nm)
    F = rng.normal(size=(n, n)) + 1j * rng.normal(size=(n, n))
    floor = F @ F.conj().T / n * case["floor"]
    Sy = np.empty((n, n, nf), dtype=complex)
    for k, f in enumerate(freq):
        M = floor * (1 + 0.3 * math.sin(0.05 * k))
        for q in range(nm):
            bell = amp[q] / ((f0[q] ** 2 - f**2) ** 2 + (2 * xi[q] * f0[q] * f) ** 2) * f0[q] ** 4
            M = M + bell * np.outer(P[:, q], P[:, q].conj())
        Sy[:, :, k] = M
    if case["half"]:
        Sy = Sy[:, : case["nref"], :]
    if case.get("nonherm"):
        # square but not Hermitian (as produced by the one-sided, exponentially windowed correlogram)
        G = rng.normal(size=(Sy.shape[1], Sy.shape[1])) * 0.3 + np.eye(Sy.shape[1])
        Sy = np.einsum("ijk,jl->ilk", Sy, G + 0.2j * rng.normal(size=G.shape))
    if case.get("deadband"):
        # a record low-pass filtered before the analysis: the upper lines lie 170 dB and more below the pass band
        Sy = Sy * np.where(freq > 0.8 * freq[-1], 1e-18, 1.0)[None, None, :]
    return freq, Sy * case.get("level", 1.0), f0


@st.composite
def pick_case(draw):
    n = draw(st.integers(2, 8))
    half = draw(st.booleans())
    nf = draw(st.one_of(st.sampled_from([33, 65, 129, 513, 1025]), st.integers(32, 400)))
    fs = draw(st.sampled_from([1.0, 100.0, 2.0, 517.0]))
    df = (fs / 2) / (nf - 1)
    nsel = draw(st.integers(1, 4))
    sel = [draw(st.floats(0.0, 1.0)) * fs / 2 for _ in range(nsel)]
    return {"n": n, "half": half, "nref": draw(st.integers(2, n)) if half else n, "nf": nf, "fs": fs, "nmodes": draw(st.integers(0, 4)),
            "complex": draw(st.booleans()), "floor": draw(st.sampled_from([1e-1, 1e-3, 1e-6])), "seed": draw(st.integers(0, 2**32 - 1)),
            "sel": sel, "DFm": draw(st.one_of(st.floats(1.0, 6.0), st.floats(1.0, 60.0))), "nonherm": draw(st.integers(0, 3)) == 0,
            "level": draw(st.sampled_from([1.0, 1.0, 1e-10, 1e8, 1e-14])), "deadband": draw(st.integers(0, 3)) == 0}  # overall level of the spectra (units / signal amplitude)


def _oracle_pick(j, tag, freq, Sy, sel, DF, Fn, Phi):
    """Fn (scalar), Phi (n,) as returned for one selected frequency"""
    nf = len(freq)
    df = freq[1] - freq[0]
    j.check(np.min(np.abs(freq - Fn)) <= 1e-9 * max(freq[-1], 1e-300), f"{tag}-gridline", lambda: f"Fn={Fn!r} is not a grid line")
    j.check(sel - DF - 0.5 * df - 1e-9 * df <= Fn <= sel + DF + 0.5 * df + 1e-9 * df, f"{tag}-inband", lambda: f"Fn={Fn!r} outside [{sel-DF!r}, {sel+DF!r}] (spacing {df!r})")
    idx = int(np.argmin(np.abs(freq - Fn)))
    s = np.array([scipy.linalg.svd(Sy[:, :, k], compute_uv=False)[:2] for k in range(nf)])
    ratio = s[:, 0] / s[:, 1]
    # the band limits are the grid lines nearest to sel -/+ DF (clipped to the grid); those two lines are boundary lines
    lo_i, hi_i = int(np.argmin(np.abs(freq - (sel - DF)))), int(np.argmin(np.abs(freq - (sel + DF))))
    inner = np.zeros(nf, dtype=bool)
    inner[lo_i + 1 : hi_i] = True
    if inner.any():
        best = np.max(ratio[inner])
        j.check(ratio[idx] >= best * (1 - 1e-9), f"{tag}-maxratio", lambda: f"picked line {idx} (f={Fn!r}) has sigma1/sigma2={ratio[idx]!r}, but line {int(np.nonzero(inner)[0][np.argmax(ratio[inner])])} inside the band has {best!r}")
    else:
        j.skip("band-without-interior-line")
    if ratio[idx] >= 1 + 1e-6:
        U, _, _ = scipy.linalg.svd(Sy[:, :, idx])
        u1 = U[:, 0]
        Phi = np.asarray(Phi)
        if j.check(Phi.shape == u1.shape, f"{tag}-phi-shape", lambda: f"{Phi.shape} vs {u1.shape}"):
            j.check(1 - mac(Phi, np.conj(u1)) <= 1e-9 * max(1.0, 1.0 / (ratio[idx] - 1)), f"{tag}-vector",
                    lambda: f"mode shape has MAC {mac(Phi, np.conj(u1)):.9f} with conj(u1) at line {idx} (MAC with u1 itself {mac(Phi, u1):.9f}, with u2 {mac(Phi, np.conj(U[:, 1])):.9f})")
            j.check(np.max(np.abs(Phi)) <= 1 + 1e-9 and np.min(np.abs(Phi - 1)) <= 1e-9, f"{tag}-normalised", lambda: f"not unity-normalised: {Phi.tolist()}")
    else:
        j.skip("sigma-gap<1e-6")
    return int(inner.sum())


def judge_pick(case):
    j = J()
    freq, Sy, f0 = _spectrum(case)
    df = freq[1] - freq[0]
    DF = case["DFm"] * df
    j.tag("half" if case["half"] else ("square-nonhermitian" if case.get("nonherm") else "hermitian"), "complex" if case["complex"] else "real")
    out = sut(fdd.SD_svalsvec, Sy.copy())
    if not j.check(not raised(out), "svalsvec-raises", lambda: f"{out!r}"):
        return j
    Sval, Svec = out
    sel = [float(min(max(s, 0.0), freq[-1])) for s in case["sel"]]
    Sval0, Svec0 = np.array(Sval, copy=True), np.array(Svec, copy=True)
    # the selected frequencies in any of their equivalent forms (a pandas Series keeps the labels of the table it was cut from)
    form = ["list", "tuple", "array", "series", "series-permuted-labels"][case["seed"] % 5]
    if form == "tuple":
        sel_arg = tuple(sel)
    elif form == "array":
        sel_arg = np.array(sel)
    elif form.startswith("series"):
        import pandas as pd

        idx = list(range(len(sel)))
        sel_arg = pd.Series(list(sel), index=idx[::-1] if form.endswith("labels") else idx)
    else:
        sel_arg = list(sel)
    j.tag("sel_freq:" + form)
    res = sut(fdd.FDD_mpe, Sval, Svec, freq.copy(), sel_arg, DF=DF)
    if not j.check(not raised(res), "mpe-raises", lambda: f"{res!r}"):
        return j
    j.check(np.array_equal(Sval, Sval0) and np.array_equal(Svec, Svec0), "mpe-mutates-decomposition", "FDD_mpe modified the singular values / vectors it was given")
    Fn, Phi = np.asarray(res[0]), np.asarray(res[1])
    if not j.check(Fn.shape == (len(sel),) and Phi.shape == (Sy.shape[0], len(sel)), "mpe-shape", lambda: f"Fn{Fn.shape} Phi{Phi.shape}"):
        return j
    wide = 0
    for q, s in enumerate(sel):
        ninner = _oracle_pick(j, "pick", freq, Sy, s, DF, float(Fn[q]), Phi[:, q])
        bell_inside = any(abs(f - s) < DF for f in f0)
        if ninner >= 5 and bell_inside:
            wide += 1
    j.nontrivial(wide > 0 or case["half"])
    return j


def judge_decomposition(case):
    j = J()
    freq, Sy, _ = _spectrum(case)
    j.tag("half" if case["half"] else "hermitian", "level=1" if case.get("level", 1.0) == 1.0 else "level!=1", "complex" if case["complex"] else "real")
    j.nontrivial(True)
    out = sut(fdd.SD_svalsvec, Sy.copy())
    if not j.check(not raised(out), "svalsvec-raises", lambda: f"{out!r}"):
        return j
    Sval, Svec = np.asarray(out[0]), np.asarray(out[1])
    nr, nc, nf = Sy.shape
    if not j.check(Svec.shape == (nr, nr, nf) and Sval.shape[2] == nf and Sval.shape[0] == Sval.shape[1], "decomp-shape", lambda: f"S_val{Sval.shape} S_vec{Svec.shape} for Sy{Sy.shape}"):
        return j
    ns = Sval.shape[0]
    kinds = set()
    for k in range(nf):
        V = Svec[:, :, k]
        j.check(np.allclose(V @ V.conj().T, np.eye(nr), atol=1e-10), "decomp-unitary", lambda: f"stored vectors at line {k} are not unitary")
        d = np.real(np.diag(Sval[:, :, k]))
        off = Sval[:, :, k] - np.diag(np.diag(Sval[:, :, k]))
        j.check(np.all(d >= 0) and np.all(np.diff(d) <= 1e-12 * max(d[0], 1e-300)) and np.max(np.abs(off)) == 0, "decomp-values", lambda: f"stored values at line {k} not a non-negative non-increasing diagonal: {d.tolist()}")
        s = scipy.linalg.svd(Sy[:, :, k], compute_uv=False)[:ns]
        if np.allclose(d, s, rtol=1e-9, atol=1e-12 * s[0]):
            kinds.add("sigma")
        elif np.allclose(d**2, s, rtol=1e-9, atol=1e-12 * s[0]):
            kinds.add("sqrt")
        else:
            kinds.add("other")
            j.fail("decomp-singular-values", f"line {k}: stored values {d.tolist()} are neither the singular values {s.tolist()} nor their square roots")
            break
        # faithful decomposition: U diag(sigma^2) U^H = Sy Sy^H with U = stored^H
        U = V.conj().T
        sig = s if "sigma" in kinds else s
        G = U[:, : len(s)] @ np.diag(s**2) @ U[:, : len(s)].conj().T
        ref = Sy[:, :, k] @ Sy[:, :, k].conj().T
        j.check(np.max(np.abs(G - ref)) <= 1e-9 * np.max(np.abs(ref)), "decomp-faithful", lambda: f"line {k}: U diag(sigma^2) U^H differs from Sy Sy^H")
    j.check(len(kinds) <= 1, "decomp-consistent", lambda: f"stored values mix conventions across lines: {kinds}")
    # a later decomposition of another spectrum of the same shape must leave the arrays handed out before untouched
    keep = (out[0], out[1])
    snap = (np.array(out[0], copy=True), np.array(out[1], copy=True))
    other = sut(fdd.SD_svalsvec, (Sy[:, :, ::-1] * 1.7 + 0.1 * Sy).copy())
    if not raised(other):
        j.check(np.array_equal(np.asarray(keep[0]), snap[0]) and np.array_equal(np.asarray(keep[1]), snap[1]), "decomp-overwritten",
                "singular values / vectors returned earlier changed when another spectrum of the same shape was decomposed")
    return j


@st.composite
def narrow_case(draw):
    nx = draw(st.sampled_from([64, 128, 256, 512]))
    n = draw(st.integers(2, 6))
    return {"nxseg": nx, "k0": draw(st.integers(3, nx // 2 - 3)), "fs": draw(st.sampled_from([1.0, 100.0, 37.0])),
            "amps": [[10.0 ** draw(st.floats(-1, 1)), draw(st.floats(-math.pi, math.pi))] for _ in range(n)],
            "nseg": draw(st.integers(4, 8)), "seed": draw(st.integers(0, 2**32 - 1)), "DFl": draw(st.integers(1, 2))}


def judge_narrow(case):
    j = J()
    nx, k0, fs = case["nxseg"], case["k0"], case["fs"]
    a = np.array([A * complex(math.cos(p), math.sin(p)) for A, p in case["amps"]])
    N = nx * case["nseg"]
    t = np.arange(N)
    ph = 2 * np.pi * ((k0 * t) % nx) / nx
    rng = rng_of(case["seed"])
    Y = np.real(a[None, :] * np.exp(1j * ph)[:, None]) + 1e-9 * np.max(np.abs(a)) * rng.normal(size=(N, len(a)))
    j.tag(f"n={len(a)}")
    j.nontrivial(np.max(np.abs(np.angle(a / a[0]))) > 0.1)
    ss = SingleSetup(Y, fs=fs)
    alg = FDD(name="f", nxseg=nx, method_SD="per", pov=0.5)
    ss.add_algorithms(alg)
    r = sut(ss.run_by_name, "f")
    f0 = k0 * fs / nx
    r2 = sut(ss.mpe, "f", sel_freq=[f0], DF=case["DFl"] * fs / nx)
    if not j.check(not raised(r) and not raised(r2), "narrow-raises", lambda: f"{r!r} {r2!r}"):
        return j
    Fn, Phi = np.asarray(alg.result.Fn), np.asarray(alg.result.Phi)
    # Hann leakage puts the same rank-one matrix on the two neighbouring lines: any of the three may win
    j.check(abs(Fn[0] - f0) <= 1.01 * fs / nx, "narrow-fn", lambda: f"Fn={Fn[0]!r}, sinusoid at {f0!r}")
    i0 = int(np.argmax(np.abs(a)))
    exp = a / a[i0]
    got = Phi[:, 0] / Phi[i0, 0]
    j.check(np.max(np.abs(Phi[:, 0])) <= 1 + 1e-9 and np.min(np.abs(Phi[:, 0] - 1)) <= 1e-9, "narrow-normalised", lambda: f"{Phi[:, 0].tolist()}")
    err = np.max(np.abs(got - exp))
    j.check(err <= 1e-6, "narrow-amplitudes", lambda: f"mode shape {np.round(got, 6).tolist()} expected amplitude ratios {np.round(exp, 6).tolist()} (conjugate {np.round(np.conj(exp), 6).tolist()})")
    return j


@st.composite
def e2e_case(draw):
    s = draw(modal.system(1, 3, 3, 5, xi_lo=0.005, xi_hi=0.03, fr_lo=0.05, fr_hi=0.4))
    return {"sys": s, "alg": draw(st.sampled_from(["FDD", "EFDD", "FSDD", "FDD_MS"])), "nxseg": draw(st.sampled_from([256, 512])),
            "method": draw(st.sampled_from(["per", "cor"])), "N": draw(st.integers(6000, 9000)), "seed": draw(st.integers(0, 2**32 - 1)),
            "DFl": draw(st.integers(2, 8)), "selperm": draw(st.integers(0, 2**16))}  # order (and repetition) of the selected frequencies


def judge_e2e(case):
    j = J()
    S = modal.Sys(case["sys"])
    an = case["alg"]
    j.tag(an, case["method"])
    j.nontrivial(True)
    nx = case["nxseg"]
    DF = case["DFl"] * S.fs / nx
    if an == "FDD_MS":
        rov = list(range(2, S.nch))
        h = max(1, len(rov) // 2)
        chans = [[0, 1] + rov[:h], (rov[h:] or rov[:1]) + [1, 0]]
        refl = [[0, 1], [len(chans[1]) - 1, len(chans[1]) - 2]]
        datasets = [modal.random_response(S, case["N"], case["seed"] + i, noise=0.05, channels=c) for i, c in enumerate(chans)]
        setup = MultiSetup_PreGER(fs=S.fs, ref_ind=refl, datasets=datasets)
        alg = FDD_MS(name="a", nxseg=nx, method_SD=case["method"])
    else:
        Y = modal.random_response(S, case["N"], case["seed"], noise=0.05)
        setup = SingleSetup(Y, fs=S.fs)
        cls = {"FDD": FDD, "EFDD": EFDD, "FSDD": FSDD}[an]
        alg = cls(name="a", nxseg=nx, method_SD=case["method"])
    setup.add_algorithms(alg)
    r = sut(setup.run_by_name, "a")
    if not j.check(not raised(r), "e2e-run-raises", lambda: f"{r!r}"):
        return j
    sel = [float(f) for f in S.fn]
    if case.get("selperm"):
        # the user's picks in any order, one of them possibly twice
        sel = [sel[i_] for i_ in rng_of(case["selperm"]).permutation(len(sel))]
        if case["selperm"] % 3 == 0 and an in ("FDD", "FDD_MS"):
            sel.append(sel[0])
        if sel != sorted(set(sel)):
            j.tag("picks-unsorted-or-repeated")
    if an in ("EFDD", "FSDD"):
        r2 = sut(setup.mpe, "a", sel_freq=sel, DF1=DF, DF2=4 * DF)
    else:
        r2 = sut(setup.mpe, "a", sel_freq=sel, DF=DF)
    if raised(r2) and an in ("EFDD", "FSDD"):
        j.skip("efdd-fit-failed")  # the damping fit (C07) may not find enough extrema on random data
        return j
    if not j.check(not raised(r2), "e2e-mpe-raises", lambda: f"{r2!r}"):
        return j
    res = alg.result
    freq, Sy = np.asarray(res.freq), np.asarray(res.Sy)
    Phi = np.asarray(res.Phi)
    Fn = np.asarray(res.Fn)
    if not j.check(Phi.shape == (Sy.shape[0], len(sel)) and np.atleast_1d(Fn).shape == (len(sel),), "e2e-phi-shape", lambda: f"Phi {Phi.shape}, Fn {np.atleast_1d(Fn).shape} for {len(sel)} selected frequencies"):
        return j
    Fn = np.atleast_1d(Fn)
    for q, s in enumerate(sel):
        if an in ("EFDD", "FSDD"):
            # the first stage picks the line; EFDD reports a refined frequency, so locate the picked line from the shape
            nf = len(freq)
            df = freq[1] - freq[0]
            best, bidx = -1, None
            for k in range(nf):
                U, sv, _ = scipy.linalg.svd(Sy[:, :, k])
                m_ = mac(Phi[:, q], np.conj(U[:, 0]))
                if m_ > best:
                    best, bidx = m_, k
            _oracle_pick(j, "e2e", freq, Sy, s, DF, float(freq[bidx]), Phi[:, q])
        else:
            _oracle_pick(j, "e2e", freq, Sy, s, DF, float(Fn[q]), Phi[:, q])
    # stored decomposition belongs to result.Sy
    k = len(freq) // 3
    sv = scipy.linalg.svd(Sy[:, :, k], compute_uv=False)
    d = np.real(np.diag(np.asarray(res.S_val)[:, :, k]))
    j.check(np.allclose(d, sv[: len(d)], rtol=1e-9) or np.allclose(d**2, sv[: len(d)], rtol=1e-9), "e2e-stored-values", "result.S_val does not belong to result.Sy")
    # the stored vectors are still a faithful decomposition after the extraction (at the picked lines too)
    Svec = np.asarray(res.S_vec)
    lines = sorted({k, *[int(np.argmin(np.abs(freq - f))) for f in np.atleast_1d(Fn)]})
    for kk in lines:
        V = Svec[:, :, kk]
        j.check(np.allclose(V @ V.conj().T, np.eye(V.shape[0]), atol=1e-9), "e2e-stored-vectors", lambda: f"after mpe the stored singular vectors at line {kk} are no longer unitary")
    return j


SUBS = [
    Sub("pick", judge_pick, pick_case(), quick=300, thorough=24000,
        rule="fdd.SD_svalsvec + fdd.FDD_mpe: Fn is a grid line in the band with maximal sigma1/sigma2; Phi = conj(u1) there, unity-normalised"),
    Sub("decomposition", judge_decomposition, pick_case(), quick=60, thorough=6000,
        rule="stored vectors unitary, values non-negative non-increasing and consistently sigma or sqrt(sigma); U diag(sigma^2) U^H = Sy Sy^H at every line"),
    Sub("narrow_band", judge_narrow, narrow_case(), quick=100, thorough=12000,
        rule="grid-line sinusoid with complex channel amplitudes through SingleSetup+FDD: mode shape = a/a[argmax|a|] (not its conjugate) to 1e-6"),
    Sub("end_to_end", judge_e2e, e2e_case(), quick=48, thorough=2400,
        rule="FDD / FDD_MS / first stage of EFDD, FSDD on random-response data: result.Fn, result.Phi re-derived from result.Sy by the pick oracle"),
]
