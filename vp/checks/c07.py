"""C07 - EFDD / FSDD recover frequency and damping of an exact SDOF spectral bell."""
from __future__ import annotations

import numpy as np
from hypothesis import strategies as st

from pyoma2.algorithms import EFDD, FSDD
from pyoma2.algorithms.data.result import EFDDResult
from pyoma2.functions import fdd
from pyoma2.setup import SingleSetup

from ..core import J, Sub, mac, raised, rng_of, sut

import os

TIGHT = float(os.environ.get("VP_C07_TIGHT", "1"))
PROPERTY = "C07"
RULE = (
    "one mode with fn in [0.04,0.25] fs, xi in [2 %,5 %], half-power bandwidth >= 4 lines, >= 30 periods in the half record, 2..6 channels, "
    "real shapes, segment lengths 1024..8192 (powers of two and 1200, 1500, 2000, 3000, 6000), drawn fs, DF2 in [4,8] bandwidths inside the grid or (a quarter of the cases) reaching past the lower / upper end of the frequency axis, default sppk/npmax/MAClim, methodSy 'per'; "
    "Sy = S(f) phi phi^T + 1e-9 max(S) I with the analytic displacement PSD of a white-noise driven SDOF; every case is non-trivial (distinct parameters)"
)
ASSUMPTIONS = [
    "accuracy bounds as stated in the property: MAC >= 0.999, |dfn|/fn <= 2.5 %, |dxi|/xi <= 15 % (empirical, calibrated on the repaired tree: worst 0.9 % / 5.7 %)",
    "metamorphic scale relation asserted to 1e-9 relative",
]


@st.composite
def bell_case(draw):
    nxseg = draw(st.sampled_from([1024, 2048, 4096, 8192, 1200, 1500, 2000, 3000, 6000]))  # segment lengths need not be powers of two
    xi = draw(st.floats(0.02, 0.05))
    # constraints: 2*xi*fr*nxseg >= 4 (bandwidth >= 4 lines); fr*nxseg >= 60 (30 periods in the half record)
    lo = max(0.04, 4.0 / (2 * xi * nxseg), 60.0 / nxseg)
    fr = draw(st.floats(lo, 0.25))
    bw = 2 * xi * fr  # half-power bandwidth / fs
    # DF2 in [4,8] bandwidths but inside the grid on both sides
    kmax = min(8.0, (fr - 1.0 / nxseg) / bw, (0.5 - fr - 1.0 / nxseg) / bw)
    k = draw(st.floats(4.0, max(4.0, kmax))) if kmax >= 4.0 else None
    n = draw(st.integers(2, 6))
    ent = st.floats(-1, 1, allow_nan=False, allow_subnormal=False).map(lambda x: 0.0 if abs(x) < 1e-3 else x)
    phi = draw(st.lists(ent, min_size=n, max_size=n))
    if max(abs(v) for v in phi) < 0.2:
        phi[draw(st.integers(0, n - 1))] = 1.0
    return {"nxseg": nxseg, "xi": xi, "fr": fr, "kbw": k, "phi": phi, "fs": draw(st.one_of(st.sampled_from([1.0, 100.0, 2048.0]), st.floats(0.1, 5000))),
            "over": draw(st.sampled_from([None, None, None, "upper", "lower", "both"])),
            "npmax_np": draw(st.integers(0, 2)) == 0,  # the default number of extrema (20) handed over as a numpy integer  # analysis band reaching past the ends of the frequency axis
            "sel_off": draw(st.floats(-0.4, 0.4)), "scale": 10.0 ** draw(st.one_of(st.floats(-6, 6), st.sampled_from([-20.0, -16.0, -12.0, 8.0]))), "method": draw(st.sampled_from(["EFDD", "FSDD"]))}


def _matrix(case):
    fs, nx = case["fs"], case["nxseg"]
    fn = case["fr"] * fs
    xi = case["xi"]
    freq = np.arange(nx // 2 + 1) * fs / nx
    S = fn**4 / ((fn**2 - freq**2) ** 2 + (2 * xi * fn * freq) ** 2)
    phi = np.asarray(case["phi"], float)
    Sy = S[None, None, :] * np.outer(phi, phi)[:, :, None] + 1e-9 * np.max(S) * np.eye(len(phi))[:, :, None]
    return freq, Sy.astype(complex), fn, xi, phi


def judge_bell(case, via_class):
    j = J()
    if case["kbw"] is None:
        j.skip("DF2-does-not-fit-grid")
        return j
    freq, Sy, fn, xi, phi = _matrix(case)
    fs, nx = case["fs"], case["nxseg"]
    dt = 1.0 / fs
    bw = 2 * xi * fn
    DF2 = case["kbw"] * bw
    DF1 = max(bw, 2 * fs / nx)
    sel = fn + case["sel_off"] * bw
    over = case.get("over")
    if over in ("upper", "both"):
        DF2 = max(DF2, 1.1 * (fs / 2 - sel))
    if over in ("lower", "both"):
        DF2 = max(DF2, 1.1 * sel)
    method = case["method"]
    j.tag(method, f"nx={nx}", f"band-over={over}")
    j.nontrivial(True)

    extra = dict(npmax=np.int64(20)) if case.get("npmax_np") else {}

    def run(mat):
        if not via_class:
            out = sut(fdd.EFDD_mpe, mat.copy(), freq.copy(), dt, [sel], "per", method=method, DF1=DF1, DF2=DF2, **extra)
            if raised(out):
                return out
            return np.asarray(out[0]).reshape(-1), np.asarray(out[1]).reshape(-1), np.asarray(out[2])
        ss = SingleSetup(np.zeros((16, len(phi))), fs=fs)
        cls = EFDD if method == "EFDD" else FSDD
        alg = cls(name="a", nxseg=nx, method_SD="per")
        ss.add_algorithms(alg)
        sv = fdd.SD_svalsvec(mat)
        alg.result = EFDDResult(freq=freq.copy(), Sy=mat.copy(), S_val=sv[0], S_vec=sv[1])
        r = sut(ss.mpe, "a", sel_freq=[sel], DF1=DF1, DF2=DF2, **extra)
        if raised(r):
            return r
        return np.asarray(alg.result.Fn).reshape(-1), np.asarray(alg.result.Xi).reshape(-1), np.asarray(alg.result.Phi)

    out = run(Sy)
    if not j.check(not raised(out), "efdd-raises", lambda: f"{out!r}"):
        return j
    Fn, Xi, Phi = out
    if not j.check(Fn.shape == (1,) and Xi.shape == (1,) and Phi.shape == (len(phi), 1), "efdd-shape", lambda: f"{Fn.shape} {Xi.shape} {Phi.shape}"):
        return j
    efn = abs(Fn[0] - fn) / fn
    exi = abs(Xi[0] - xi) / xi
    j.check(mac(Phi[:, 0], phi) >= 0.999, "bell-mac", lambda: f"MAC={mac(Phi[:, 0], phi):.5f}")
    j.check(efn <= 0.025 * TIGHT, "bell-fn", lambda: f"{method}: fn={Fn[0]!r} true={fn!r} rel.err={efn:.4f} (xi={xi:.4f}, fr={case['fr']:.4f}, nxseg={nx})")
    j.check(exi <= 0.15 * TIGHT, "bell-xi", lambda: f"{method}: xi={Xi[0]!r} true={xi!r} rel.err={exi:.4f} (fr={case['fr']:.4f}, nxseg={nx}, DF2={case['kbw']:.2f} bandwidths)")
    if not via_class:
        # the same array object refilled with another mode's spectrum (a preallocated buffer) must be analysed afresh
        case2 = dict(case)
        case2["fr"] = case["fr"] * (0.8 if case["fr"] > 0.1 else 1.25)
        freq2, Sy2, fn2, xi2, phi2 = _matrix(case2)
        buf = Sy.copy()
        o1 = sut(fdd.EFDD_mpe, buf, freq.copy(), dt, [sel], "per", method=method, DF1=DF1, DF2=DF2)
        buf[...] = Sy2
        bw2 = 2 * xi2 * fn2
        o2 = sut(fdd.EFDD_mpe, buf, freq.copy(), dt, [fn2], "per", method=method, DF1=max(bw2, 2 * fs / nx), DF2=min(case["kbw"], 4.0) * bw2)
        if not raised(o1) and not raised(o2):
            j.check(abs(float(np.asarray(o2[0]).reshape(-1)[0]) - fn2) <= 0.025 * TIGHT * fn2, "bell-refilled-buffer",
                    lambda: f"{method}: the same array refilled with a mode at {fn2:.5g} Hz is analysed as {float(np.asarray(o2[0]).reshape(-1)[0]):.5g} Hz (previous content {fn:.5g} Hz)")
    out2 = run(Sy * case["scale"])
    if j.check(not raised(out2), "efdd-scaled-raises", lambda: f"{out2!r}"):
        j.check(abs(out2[0][0] - Fn[0]) <= 1e-9 * abs(Fn[0]) and abs(out2[1][0] - Xi[0]) <= 1e-9 * abs(Xi[0]), "bell-scale",
                lambda: f"scaling Sy by {case['scale']:.3g} changed the result: fn {Fn[0]!r}->{out2[0][0]!r}, xi {Xi[0]!r}->{out2[1][0]!r}")
    return j


SUBS = [
    Sub("function", lambda c: judge_bell(c, False), bell_case(), quick=120, thorough=5000,
        rule="fdd.EFDD_mpe (EFDD and FSDD) on the analytic bell: MAC >= 0.999, fn within 2.5 %, xi within 15 %; invariant under Sy -> c*Sy"),
    Sub("classes", lambda c: judge_bell(c, True), bell_case(), quick=60, thorough=2500,
        rule="EFDD / FSDD classes through setup.mpe with the analytic matrix installed as result.Sy/freq (dt / method wiring): same bounds"),
]
