"""C13 - spectral matrix estimation: grid, pairing, scaling and phase convention."""
from __future__ import annotations

import math

import numpy as np
from hypothesis import strategies as st

from pyoma2.functions import fdd

from ..core import relayout, J, Sub, raised, rng_of, sut

PROPERTY = "C13"
RULE = (
    "records with 1..8 channels, 1..4 reference channels, >= 2 segments, even segment lengths 16..4096, overlaps with integer "
    "nxseg*pov, both estimators, drawn fs; oracles: grid, bilinearity/gain^2, Hermitian PSD, independent Welch implementation, "
    "Parseval, gain/delay transfer, grid-line sinusoids; non-trivial = more than one channel or pov != 0.5 or estimator 'cor'"
)
ASSUMPTIONS = [
    "Welch equivalence is asserted at lines >= 2 (periodic Hann window confines the removed segment mean to lines 0 and 1)",
    "gain/delay tolerances as stated in the property: 5 % at every interior line ('per'), 30 % median over lines ('cor'); white-noise source, records of 64..100 segment lengths (calibrated: 'per' error <= 2.4 % = half the bound, 'cor' median <= 11 %); line 1 excluded like line 0 (segment-mean removal)",
]

_NX = st.one_of(st.sampled_from([16, 32, 64, 128, 256, 512, 1024, 2048, 4096]), st.integers(8, 300).map(lambda k: 2 * k), st.integers(8, 300).map(lambda k: 2 * k + 1))


@st.composite
def pov_for(draw, nxseg):
    """overlap fraction with integer nxseg*pov, 0 <= pov <= 0.75"""
    k = draw(st.one_of(st.sampled_from([0, nxseg // 4, nxseg // 2, (3 * nxseg) // 4]), st.integers(0, (3 * nxseg) // 4)))
    if nxseg * (k / nxseg) != k:  # the product the library forms must be the integer itself
        k = nxseg // 2
    return k / nxseg, k


@st.composite
def record_case(draw, methods=("per", "cor"), nmax_all=8, nxmax=4096, min_seg=2, max_seg=6):
    nx = draw(_NX.filter(lambda v: v <= nxmax))
    pov, nov = draw(pov_for(nx))
    nall = draw(st.integers(1, nmax_all))
    nref = draw(st.integers(1, 4))
    nseg = draw(st.integers(min_seg, max_seg))
    extra = draw(st.integers(0, nx - 1))
    N = nx + (nseg - 1) * (nx - nov) + extra
    N = min(N, 40000)
    if N < 2 * nx:
        N = 2 * nx
    return {
        "method": draw(st.sampled_from(methods)), "nxseg": nx, "pov": pov, "nov": nov, "n_all": nall, "n_ref": nref, "N": N,
        "fs": draw(st.one_of(st.sampled_from([1.0, 100.0, 256.0]), st.floats(0.5, 2000))), "seed": draw(st.integers(0, 2**32 - 1)),
        "share": draw(st.booleans()),
        "layout": draw(st.sampled_from(["C", "C", "F", "colslice", "rowstep", "neg"])),  # memory layout of the arrays handed to the estimator
    }


@st.composite
def long_case(draw):
    """long multi-channel records (hundreds of thousands of samples, thousands of segments): monitoring data"""
    nx = draw(st.sampled_from([128, 256, 512]))
    nov = draw(st.sampled_from([nx // 2, (3 * nx) // 4, 0]))
    nseg = draw(st.integers(900, 2600))
    N = min(nx + (nseg - 1) * (nx - nov) + draw(st.integers(0, nx - 1)), 400000)
    return {"method": "per", "nxseg": nx, "pov": nov / nx, "nov": nov, "n_all": draw(st.integers(4, 8)), "n_ref": draw(st.integers(2, 4)), "N": N,
            "fs": draw(st.sampled_from([1.0, 100.0, 256.0])), "seed": draw(st.integers(0, 2**32 - 1)), "share": draw(st.booleans()), "layout": "C"}


def _data(case):
    rng = rng_of(case["seed"])
    N = case["N"]
    Y = rng.normal(size=(case["n_all"], N)) + rng.normal(size=(case["n_all"], 1)) * 0.5
    # coloured: mix in a moving average so that spectra are not flat
    Y = Y + 0.7 * np.roll(Y, 1, axis=1) + 0.3 * rng.normal(size=(1, N))
    if case["share"] and case["n_ref"] <= case["n_all"]:
        R = Y[: case["n_ref"]].copy()
        if case["seed"] % 3 == 0 and case["n_ref"] >= 2:
            # the references are the data channels, but only the first one sits at its own position
            R[1:] = R[1:][::-1] if case["n_ref"] >= 3 else rng.normal(size=(1, N)) + 0.5 * Y[:1]
    else:
        R = rng.normal(size=(case["n_ref"], N)) + 0.5 * Y[:1]
    return Y, R


def _tags(j, case):
    j.tag(case["method"], f"nx<={256 if case['nxseg'] <= 256 else 4096}", "pov=0.5" if case["pov"] == 0.5 else "pov!=0.5")
    j.nontrivial(case["n_all"] > 1 or case["pov"] != 0.5 or case["method"] == "cor")


def _sd(case, Y, R, **over):
    kw = dict(nxseg=case["nxseg"], method=case["method"], pov=case["pov"])
    kw.update(over)
    lay = case.get("layout", "C")
    return sut(fdd.SD_est, relayout(Y, lay), relayout(R, lay), 1.0 / case["fs"], **kw)


# ---------------------------------------------------------------------------
def judge_grid(case):
    j = J()
    _tags(j, case)
    Y, R = _data(case)
    out = _sd(case, Y.copy(), R.copy())
    if not j.check(not raised(out), "grid-raises", lambda: f"{out!r}"):
        return j
    f, Sy = np.asarray(out[0]), np.asarray(out[1])
    nx = case["nxseg"]
    nl = nx // 2 + 1
    j.check(Sy.shape == (case["n_all"], case["n_ref"], nl), "grid-shape", lambda: f"Sy.shape={Sy.shape}, expected {(case['n_all'], case['n_ref'], nl)}")
    if j.check(f.shape == (nl,), "grid-len", lambda: f"freq.shape={f.shape}, expected ({nl},)"):
        exp = np.arange(nl) * case["fs"] / nx
        j.check(np.allclose(f, exp, rtol=1e-12, atol=1e-12 * case["fs"]), "grid-values", lambda: f"freq[:3]={f[:3].tolist()} expected {exp[:3].tolist()}, last {f[-1]!r} vs {exp[-1]!r}")
    j.check(np.all(np.isfinite(Sy)), "grid-finite", "non-finite spectral values")
    return j


def judge_bilinear(case):
    j = J()
    _tags(j, case)
    rng = rng_of(case["seed"] + 1)
    Y1, R1 = _data(case)
    Y2 = rng.normal(size=Y1.shape)
    R2 = rng.normal(size=R1.shape)
    a, b, g = case["alpha"], case["beta"], case["gain"]
    outs = [_sd(case, Y1, R1), _sd(case, Y2, R1), _sd(case, a * Y1 + b * Y2, R1), _sd(case, Y1, R2), _sd(case, Y1, a * R1 + b * R2), _sd(case, g * Y1, g * R1)]
    if not j.check(not any(raised(o) for o in outs), "bilinear-raises", lambda: f"{outs}"):
        return j
    S11, S21, Sc1, S12, S1c, Sg = [np.asarray(o[1]) for o in outs]
    sc = (abs(a) + abs(b) + 1) * max(np.max(np.abs(S11)), np.max(np.abs(S21)), np.max(np.abs(S12)))
    j.check(np.max(np.abs(Sc1 - (a * S11 + b * S21))) <= 1e-10 * sc, "bilinear-data", lambda: f"err {np.max(np.abs(Sc1 - (a * S11 + b * S21))):.3e} scale {sc:.3e}")
    j.check(np.max(np.abs(S1c - (a * S11 + b * S12))) <= 1e-10 * sc, "bilinear-ref", lambda: f"err {np.max(np.abs(S1c - (a * S11 + b * S12))):.3e} scale {sc:.3e}")
    j.check(np.max(np.abs(Sg - g * g * S11)) <= 1e-10 * g * g * np.max(np.abs(S11)), "gain-squared", lambda: f"gain {g}: err {np.max(np.abs(Sg - g * g * S11)):.3e}")
    return j


@st.composite
def bilinear_case(draw):
    c = draw(record_case(nxmax=1024, max_seg=4))
    c["alpha"] = draw(st.floats(-3, 3))
    c["beta"] = draw(st.floats(-3, 3))
    lg = draw(st.floats(-6, 6))
    c["gain"] = draw(st.sampled_from([1.0, -1.0])) * 10.0**lg
    return c


def judge_hermitian(case):
    j = J()
    _tags(j, case)
    Y, _ = _data(case)
    out = _sd(case, Y.copy(), Y.copy())
    if not j.check(not raised(out), "herm-raises", lambda: f"{out!r}"):
        return j
    Sy = np.asarray(out[1])
    n = case["n_all"]
    if not j.check(Sy.shape[:2] == (n, n), "herm-shape", lambda: f"{Sy.shape}"):
        return j
    worst_h, worst_e = 0.0, 0.0
    for k in range(Sy.shape[2]):
        M = Sy[:, :, k]
        tr = max(np.trace(M).real, 1e-300)
        worst_h = max(worst_h, np.max(np.abs(M - M.conj().T)) / tr)
        ev = np.linalg.eigvalsh((M + M.conj().T) / 2)
        worst_e = min(worst_e, ev[0] / tr)
    j.check(worst_h <= 1e-10, "hermitian", lambda: f"max |S - S^H| / trace = {worst_h:.3e}")
    j.check(worst_e >= -1e-10, "psd", lambda: f"min eigenvalue / trace = {worst_e:.3e}")
    return j


def welch_ref(Y, R, fs, nx, nov, detrend=True):
    """independent Welch estimator: Hann (periodic), density scaling, one-sided.
    Returns S[i, j, k] = mean_seg conj(X_i) X_j."""
    n = np.arange(nx)
    w = 0.5 - 0.5 * np.cos(2 * np.pi * n / nx)
    step = nx - nov
    N = Y.shape[1]
    starts = list(range(0, N - nx + 1, step))
    acc = np.zeros((Y.shape[0], R.shape[0], nx // 2 + 1), dtype=complex)
    ms = np.zeros(Y.shape[0])
    for s in starts:
        a = Y[:, s : s + nx]
        b = R[:, s : s + nx]
        if detrend:
            a = a - a.mean(axis=1, keepdims=True)
            b = b - b.mean(axis=1, keepdims=True)
        A = np.fft.rfft(a * w, axis=1)
        B = np.fft.rfft(b * w, axis=1)
        acc += np.conj(A)[:, None, :] * B[None, :, :]
        ms += np.sum((a * w) ** 2, axis=1)
    acc /= len(starts)
    ms /= len(starts)
    scale = 1.0 / (fs * np.sum(w**2))
    acc *= scale
    if nx % 2 == 0:
        acc[:, :, 1:-1] *= 2  # even nx: DC and Nyquist not doubled
    else:
        acc[:, :, 1:] *= 2  # odd nx: there is no Nyquist line
    return acc, ms / np.sum(w**2), len(starts)


def judge_welch(case):
    j = J()
    _tags(j, case)
    Y, R = _data(case)
    out = _sd(case, Y.copy(), R.copy())
    if not j.check(not raised(out), "welch-raises", lambda: f"{out!r}"):
        return j
    Sy = np.asarray(out[1])
    ref, _, nseg = welch_ref(Y, R, case["fs"], case["nxseg"], case["nov"], detrend=False)
    if not j.check(Sy.shape == ref.shape, "welch-shape", lambda: f"{Sy.shape} vs {ref.shape}"):
        return j
    # compare relative to the geometric mean of the two auto levels (lines >= 2)
    ay, _, _ = welch_ref(Y, Y, case["fs"], case["nxseg"], case["nov"], detrend=False)
    ar, _, _ = welch_ref(R, R, case["fs"], case["nxseg"], case["nov"], detrend=False)
    py = np.real(np.einsum("iik->ik", ay))
    pr = np.real(np.einsum("iik->ik", ar))
    den = np.sqrt(py[:, None, :] * pr[None, :, :]) + 1e-300
    err = np.max(np.abs(Sy - ref)[:, :, 2:] / den[:, :, 2:])
    j.tag(f"nseg={min(nseg, 9)}")
    j.check(err <= 1e-9, "welch-equivalence", lambda: f"max relative difference from independent Welch estimate {err:.3e} (nxseg={case['nxseg']}, nov={case['nov']})")
    return j


def judge_parseval(case):
    j = J()
    _tags(j, case)
    Y, _ = _data(case)
    out = _sd(case, Y.copy(), Y.copy())
    if not j.check(not raised(out), "parseval-raises", lambda: f"{out!r}"):
        return j
    f, Sy = np.asarray(out[0]), np.asarray(out[1])
    df = case["fs"] / case["nxseg"]
    _, msq, nseg = welch_ref(Y, Y, case["fs"], case["nxseg"], case["nov"], detrend=True)
    for i in range(case["n_all"]):
        tot = float(np.sum(Sy[i, i, :].real) * df)
        j.check(abs(tot - msq[i]) <= 1e-9 * msq[i], "parseval-exact", lambda: f"channel {i}: integral {tot!r} vs windowed segment mean square {msq[i]!r}")
    if nseg >= 32 and case["nxseg"] >= 64:  # short segments: the per-segment mean removal takes a sizeable part of a coloured record's power
        Z = Y - Y.mean(axis=1, keepdims=True)
        for i in range(case["n_all"]):
            tot = float(np.sum(Sy[i, i, :].real) * df)
            rec = float(np.mean(Z[i] ** 2))
            j.check(abs(tot - rec) <= 0.25 * rec, "parseval-record", lambda: f"channel {i}: integral {tot!r} vs record mean square {rec!r}")
    else:
        j.skip("parseval-record:<32 segments or nxseg<64")
    return j


@st.composite
def delay_case(draw):
    nx = draw(st.sampled_from([64, 128, 256, 512, 1024]))
    d = draw(st.integers(0, nx // 64))
    g = draw(st.sampled_from([1.0, -1.0])) * 10.0 ** draw(st.floats(-1, 1))
    nseg = draw(st.integers(64, 100))
    pov, nov = draw(st.sampled_from([(0.5, nx // 2), (0.0, 0), (0.25, nx // 4), (0.75, 3 * nx // 4)]))
    return {"method": draw(st.sampled_from(["per", "cor"])), "nxseg": nx, "pov": pov, "nov": nov, "d": d, "g": g,
            "N": nx * nseg + draw(st.integers(0, nx)), "fs": draw(st.one_of(st.sampled_from([1.0, 100.0]), st.floats(0.5, 2000))),
            "seed": draw(st.integers(0, 2**32 - 1)), "extra": draw(st.integers(0, 2)), "n_all": 1, "n_ref": 2}


def judge_delay(case):
    j = J()
    j.tag(case["method"], f"d={case['d']}")
    j.nontrivial(case["d"] >= 1)
    rng = rng_of(case["seed"])
    N, d, g = case["N"], case["d"], case["g"]
    x = rng.normal(size=N + d)
    X = x[d:]  # x(t)
    Xd = g * x[: N]  # g * x(t - d)
    rows = [X] + [rng.normal(size=N) for _ in range(case["extra"])]
    Y = np.vstack(rows)
    R = np.vstack([X, Xd])
    out = _sd(case, Y.copy(), R.copy())
    if not j.check(not raised(out), "delay-raises", lambda: f"{out!r}"):
        return j
    f, Sy = np.asarray(out[0]), np.asarray(out[1])
    ratio = Sy[0, 1, :] / Sy[0, 0, :]
    exp = g * np.exp(-2j * np.pi * f * d / case["fs"])
    rel = np.abs(ratio - exp) / abs(g)
    inner = rel[2:-1]  # line 1 is touched by the per-segment mean removal (cf. the Welch sub-check)
    if case["method"] == "per":
        j.check(np.max(inner) <= 0.05, "delay-per", lambda: f"max relative error of cross/auto ratio {np.max(inner):.3f} at line {int(np.argmax(inner))+1} (gain {g:.3g}, delay {d}, nxseg {case['nxseg']})")
    else:
        j.check(np.median(inner) <= 0.30, "delay-cor", lambda: f"median relative error {np.median(inner):.3f} (gain {g:.3g}, delay {d}, nxseg {case['nxseg']})")
    if d >= 1:
        # the opposite conjugation must be clearly worse where the phase is significant
        wrong = np.abs(ratio - np.conj(exp)) / abs(g)
        sig = np.abs(np.sin(2 * np.pi * f * d / case["fs"])) > 0.7
        sig[0] = sig[-1] = False
        if np.any(sig):
            j.check(np.median(wrong[sig]) > 1.0, "delay-conjugation", lambda: f"opposite-conjugation hypothesis fits (median error {np.median(wrong[sig]):.3f})")
    return j


@st.composite
def sinus_case(draw):
    nx = draw(st.sampled_from([16, 32, 64, 128, 256, 512, 1024]))
    k0 = draw(st.integers(2, nx // 2 - 2)) if nx >= 16 else 2
    n = draw(st.integers(1, 8))
    amps = [[10.0 ** draw(st.floats(-1.5, 1.5)), draw(st.floats(-math.pi, math.pi))] for _ in range(n)]
    pov, nov = draw(pov_for(nx))
    nseg = draw(st.integers(2, 6))
    return {"method": "per", "nxseg": nx, "pov": pov, "nov": nov, "k0": k0, "amps": amps, "N": nx * nseg + draw(st.integers(0, nx - 1)),
            "fs": draw(st.one_of(st.sampled_from([1.0, 100.0]), st.floats(0.5, 2000))), "n_all": n, "n_ref": n, "offset": draw(st.floats(-2, 2))}


def judge_sinus(case):
    j = J()
    n = case["n_all"]
    j.tag(f"n={n}", "pov=0.5" if case["pov"] == 0.5 else "pov!=0.5")
    j.nontrivial(n > 1)
    fs, nx, k0 = case["fs"], case["nxseg"], case["k0"]
    t = np.arange(case["N"])
    a = np.array([A * complex(math.cos(p), math.sin(p)) for A, p in case["amps"]])
    # x_i(t) = Re(a_i e^{+i w t}); exact integer-cycle argument to stay on the grid line
    ph = 2 * np.pi * ((k0 * t) % nx) / nx
    Y = np.real(a[:, None] * np.exp(1j * ph)[None, :]) + case["offset"]
    out = _sd(case, Y.copy(), Y.copy())
    if not j.check(not raised(out), "sinus-raises", lambda: f"{out!r}"):
        return j
    Sy = np.asarray(out[1])
    M = Sy[:, :, k0]
    i0 = int(np.argmax(np.abs(a)))
    # S[i, j] = conj(X_i) X_j  ->  S[i0, j] / S[i0, i0] = a_j / a_i0
    got = M[i0, :] / M[i0, i0]
    exp = a / a[i0]
    err = np.max(np.abs(got - exp))
    j.check(err <= 1e-9, "sinusoid-amplitudes", lambda: f"amplitude ratios {got.tolist()} expected {exp.tolist()} (conjugate would be {np.conj(exp).tolist()})")
    return j


@st.composite
def wiring_case(draw):
    nx = draw(st.sampled_from([64, 128, 256, 65, 250]))
    pov = draw(st.sampled_from([0.0, 0.2, 0.6] if nx in (65, 250) else [0.5, 0.0, 0.25, 0.75]))
    return {"alg": draw(st.sampled_from(["FDD", "EFDD", "FSDD", "pLSCF"])), "nxseg": nx, "pov": pov, "method": draw(st.sampled_from(["per", "cor"])),
            "n": draw(st.integers(1, 5)), "N": nx * draw(st.integers(3, 8)) + draw(st.integers(0, 50)), "fs": draw(st.sampled_from([1.0, 100.0, 37.5])),
            "seed": draw(st.integers(0, 2**32 - 1)),
            "again": draw(st.sampled_from([None, "params", "data", "gain"])), "pov2": draw(st.sampled_from([0.0, 0.5, 0.25])), "method2": draw(st.sampled_from(["per", "cor"]))}


def _close_spec(A, B, rtol=1e-10):
    """entries agree relative to the geometric mean of the two autos (memory layout may change FFT rounding)"""
    d = np.sqrt(np.abs(np.einsum("iik->ik", B)))
    return bool(np.all(np.abs(A - B) <= rtol * np.maximum(d[:, None, :] * d[None, :, :], 1e-300)))


def judge_wiring(case):
    """FDD / EFDD / FSDD / pLSCF through SingleSetup: result.freq and result.Sy are the estimate for the run
    parameters the user set (segment length, estimator, overlap) and the setup's sampling interval."""
    from pyoma2.algorithms import EFDD, FDD, FSDD, pLSCF
    from pyoma2.setup import SingleSetup

    j = J()
    rng = rng_of(case["seed"])
    Y = rng.normal(size=(case["N"], case["n"])) + 0.6 * np.roll(rng.normal(size=(case["N"], case["n"])), 1, axis=0)
    ss = SingleSetup(Y.copy(), fs=case["fs"])
    kw = dict(name="a", nxseg=case["nxseg"], method_SD=case["method"], pov=case["pov"])
    alg = {"FDD": FDD, "EFDD": EFDD, "FSDD": FSDD}[case["alg"]](**kw) if case["alg"] != "pLSCF" else pLSCF(ordmax=2, **kw)
    ss.add_algorithms(alg)
    j.tag(case["alg"], case["method"], "pov=0.5" if case["pov"] == 0.5 else "pov!=0.5")
    j.nontrivial(case["pov"] != 0.5 or case["method"] == "cor" or case["nxseg"] % 2 == 1)
    r = sut(ss.run_by_name, "a")
    if raised(r) and case["alg"] == "pLSCF" and r.type == "LinAlgError":
        j.skip("plscf-singular")  # the fit (C05), not the spectral estimate, failed
        return j
    if not j.check(not raised(r), "wiring-run-raises", lambda: f"{r!r}"):
        return j
    ref = sut(fdd.SD_est, Y.T.copy(), Y.T.copy(), 1.0 / case["fs"], case["nxseg"], method=case["method"], pov=case["pov"])
    if raised(ref):
        raise RuntimeError(f"{ref!r}")
    f, Sy = np.asarray(alg.result.freq), np.asarray(alg.result.Sy)
    j.check(f.shape == np.asarray(ref[0]).shape and np.allclose(f, ref[0], rtol=1e-12, atol=0), "wiring-freq", lambda: f"result.freq[:3]={f[:3].tolist()} vs SD_est {np.asarray(ref[0])[:3].tolist()}")
    j.check(Sy.shape == np.asarray(ref[1]).shape and _close_spec(Sy, np.asarray(ref[1])), "wiring-Sy", lambda: f"result.Sy differs from fdd.SD_est(data, data, dt, nxseg={case['nxseg']}, method={case['method']!r}, pov={case['pov']})")
    # the same algorithm object used again: after the user changed the overlap / estimator, or in a second setup holding
    # another record of the same shape (an independent one, or the same one with another gain)
    again = case.get("again")
    if again is None:
        return j
    pov2, m2, Y2, ss2 = case["pov"], case["method"], Y, ss
    if again == "params":
        pov2, m2 = case["pov2"], case["method2"]
        if case["nxseg"] % 2 == 1 or case["nxseg"] == 250:
            pov2 = 0.0
        alg.run_params.pov, alg.run_params.method_SD = pov2, m2
    else:
        Y2 = -3.0 * Y if again == "gain" else rng.normal(size=Y.shape) + 0.4 * np.roll(rng.normal(size=Y.shape), 2, axis=0)
        ss2 = SingleSetup(Y2.copy(), fs=case["fs"])
        ss2.add_algorithms(alg)
    j.tag("again=" + again)
    r = sut(ss2.run_by_name, "a")
    if raised(r) and case["alg"] == "pLSCF" and r.type == "LinAlgError":
        j.skip("plscf-singular")
        return j
    if not j.check(not raised(r), "wiring-again-raises", lambda: f"{r!r}"):
        return j
    ref2 = sut(fdd.SD_est, Y2.T.copy(), Y2.T.copy(), 1.0 / case["fs"], case["nxseg"], method=m2, pov=pov2)
    if raised(ref2):
        raise RuntimeError(f"{ref2!r}")
    S2 = np.asarray(alg.result.Sy)
    j.check(S2.shape == np.asarray(ref2[1]).shape and _close_spec(S2, np.asarray(ref2[1])), "wiring-again-Sy",
            lambda: f"second use of the algorithm object ({again}): result.Sy is not the estimate of the current record with nxseg={case['nxseg']}, method={m2!r}, pov={pov2}")
    return j


SUBS = [
    Sub("grid", judge_grid, record_case(), quick=200, thorough=20000,
        rule="freq = k*fs/nxseg, k=0..nxseg/2; Sy shape (n_all, n_ref, nxseg/2+1); both estimators"),
    Sub("bilinear_gain", judge_bilinear, bilinear_case(), quick=150, thorough=16000,
        rule="bilinear in (data, reference data); common gain g in +-[1e-6,1e6] scales Sy by g^2; both estimators"),
    Sub("hermitian_psd", judge_hermitian, record_case(methods=("per",), nxmax=1024), quick=150, thorough=16000,
        rule="'per', Yref=Y: Hermitian and min eigenvalue >= -1e-10*trace at every line"),
    Sub("welch", judge_welch, record_case(methods=("per",)), quick=200, thorough=20000,
        rule="'per' equals an independent Hann/one-sided/density Welch estimate without detrending at lines >= 2 (1e-9 relative to auto levels)"),
    Sub("parseval", judge_parseval, record_case(methods=("per",), min_seg=12, max_seg=44, nxmax=512), quick=150, thorough=16000,
        rule="sum Sy_ii*df equals the windowed mean square of the mean-removed segments exactly; >= 32 segments of >= 64 samples: record mean square within 25 %"),
    Sub("gain_delay", judge_delay, delay_case(), quick=150, thorough=16000,
        rule="reference = g*x(t-d): Sy[x,ref]/Sy[x,x] = g*exp(-2 pi i f d/fs); per 5 % every interior line, cor 30 % median; opposite conjugation rejected"),
    Sub("long_records", judge_welch, long_case(), quick=3, thorough=192,
        rule="records of up to 400 000 samples and thousands of segments, 4..8 channels: equality with the independent Welch estimate"),
    Sub("class_wiring", judge_wiring, wiring_case(), quick=120, thorough=12000,
        rule="FDD / EFDD / FSDD / pLSCF through SingleSetup: result.freq, result.Sy equal fdd.SD_est(data, data, dt, nxseg, method, pov) for the user's run parameters"),
    Sub("sinusoid", judge_sinus, sinus_case(), quick=200, thorough=20000,
        rule="'per', grid-line sinusoids with complex amplitudes over three decades: Sy[i,j]/Sy[i,i] = a_j/a_i to 1e-9"),
]
