"""C09 - hard validation criteria are enforced soundly, completely and consistently."""
from __future__ import annotations

import math

import numpy as np
from hypothesis import strategies as st

from pyoma2.algorithms import SSIcov, SSIcov_MS, SSIdat, SSIdat_MS, pLSCF, pLSCF_MS
from pyoma2.functions import fdd, gen, plscf, ssi
from pyoma2.setup import MultiSetup_PreGER, SingleSetup

from .. import indicators, modal, tables
from ..core import J, Sub, raised, rng_of, sut

PROPERTY = "C09"
RULE = (
    "noisy random-response data of drawn modal systems through SSIdat, SSIcov (with and without uncertainties), SSIdat_MS, SSIcov_MS, "
    "pLSCF, pLSCF_MS with drawn criteria (conj on/off, xi_max, mpc_lim, mpd_lim, cov_max); unfiltered solution recomputed from the "
    "library's identification functions; every cell judged: sound, complete, consistent; "
    "non-trivial = poles rejected by at least two different criteria and at least one retained"
)
ASSUMPTIONS = [
    "MPC/MPD recomputed by the harness (vp/indicators.py) from the library's definitions; poles whose indicator is NaN or within the guard band (1e-9 relative; 1e-6 absolute for MPD) are not judged",
    "soundness of 'conj' accepts the conjugate anywhere in the unfiltered table; completeness demands retention only when the conjugate is in the same column",
    "Phi_poles_cov is never filled by the library (all NaN) and is excluded from the NaN-pattern comparison",
]

PI2 = math.pi / 2


# ---------------------------------------------------------------------------
# function level
# ---------------------------------------------------------------------------
@st.composite
def fun_case(draw):
    tc = draw(tables.table_case(max_rows=8, max_cols=12))
    tc["nch"] = max(tc["nch"], 2)
    return {"table": tc, "xi_max": draw(st.sampled_from([0.05, 0.1, 0.15, 1.0])), "mpc_lim": draw(st.sampled_from([0.0, 0.3, 0.7, 0.95])),
            "mpd_lim": draw(st.sampled_from([0.05, 0.3, 0.8, PI2])), "cov_max": draw(st.sampled_from([1e-3, 5e-3, 1.0])),
            "neg": draw(st.booleans())}


def judge_functions(case):
    j = J()
    tc = dict(case["table"])
    tc["cov"] = True
    t = tables.build(tc)
    Fn, Xi, Phi = t["Fn"], t["Xi"].copy(), t["Phi"]
    rng = rng_of(case["table"]["seed"] + 7)
    if case["neg"]:
        flip = rng.random(Xi.shape) < 0.2
        Xi = np.where(flip, -Xi, Xi)
    R, C = Fn.shape
    # eigenvalue table consistent with fn, xi; conjugates for duplicated rows, some singles
    om = 2 * np.pi * Fn
    Lam = -Xi * om + 1j * om * np.sqrt(np.maximum(1 - Xi**2, 0))
    for c in range(C):
        seen = {}
        for r in range(R):
            if np.isfinite(Fn[r, c]):
                k = (Fn[r, c], Xi[r, c])
                if k in seen:
                    Lam[r, c] = np.conj(Lam[seen[k], c])
                else:
                    seen[k] = r
    j.tag("dup" if tc["dup"] else "nodup")
    j.nontrivial(True)
    # HC_conj
    L0 = Lam.copy()
    out = sut(gen.HC_conj, L0)
    if j.check(not raised(out), "conj-raises", lambda: f"{out!r}"):
        filt, mask = np.asarray(out[0]), np.asarray(out[1]).astype(bool)
        vals = Lam[np.isfinite(Lam)]
        exp = np.zeros(Lam.shape, dtype=bool)
        for r in range(R):
            for c in range(C):
                if np.isfinite(Lam[r, c]):
                    exp[r, c] = bool(np.any(vals == np.conj(Lam[r, c])))
        j.check(np.array_equal(mask, exp), "conj-mask", lambda: f"mask differs from 'conjugate present' in {int((mask != exp).sum())} cells")
        j.check(np.array_equal(np.isnan(filt), ~mask) and np.array_equal(filt[mask], Lam[mask]), "conj-output", "filtered eigenvalues are not NaN exactly where the mask is false")
        j.check(np.array_equal(L0, Lam, equal_nan=True), "conj-mutates", "input modified")
    # HC_damp
    X0 = Xi.copy()
    out = sut(gen.HC_damp, X0, case["xi_max"])
    if j.check(not raised(out), "damp-raises", lambda: f"{out!r}"):
        filt, mask = np.asarray(out[0]), np.asarray(out[1]).astype(bool)
        exp = (Xi > 0) & (Xi < case["xi_max"])
        near = np.abs(Xi - case["xi_max"]) <= 1e-9 * case["xi_max"]
        j.check(np.array_equal(mask | near, exp | near), "damp-mask", lambda: f"{int(((mask != exp) & ~near).sum())} cells differ from 0 < xi < xi_max")
        j.check(np.array_equal(np.isnan(filt), ~mask) and np.array_equal(filt[mask], Xi[mask]), "damp-output", "filtered damping not NaN exactly where mask is false")
        j.check(np.array_equal(X0, Xi, equal_nan=True), "damp-mutates", "input modified")
    # HC_phi_comp
    P0 = Phi.copy()
    out = sut(gen.HC_phi_comp, P0, case["mpc_lim"], case["mpd_lim"])
    if j.check(not raised(out), "phi-raises", lambda: f"{out!r}"):
        m_mpd, m_mpc = np.asarray(out[0]).astype(bool), np.asarray(out[1]).astype(bool)
        bad = 0
        first = None
        for r in range(R):
            for c in range(C):
                if not np.isfinite(Fn[r, c]):
                    if m_mpd[r, c] or m_mpc[r, c]:
                        bad += 1
                        first = first or (r, c, "NaN pole passes")
                    continue
                a = indicators.mpc(Phi[r, c])
                b = indicators.mpd(Phi[r, c])
                if np.isfinite(a) and abs(a - case["mpc_lim"]) > 1e-9:
                    if m_mpc[r, c] != (a >= case["mpc_lim"]):
                        bad += 1
                        first = first or (r, c, f"MPC={a} lim={case['mpc_lim']} mask={m_mpc[r, c]}")
                if np.isfinite(b) and abs(b - case["mpd_lim"]) > 1e-6 and indicators.mpd_anisotropy(Phi[r, c]) > 1e-6:
                    if m_mpd[r, c] != (b <= case["mpd_lim"]):
                        bad += 1
                        first = first or (r, c, f"MPD={b} lim={case['mpd_lim']} mask={m_mpd[r, c]}")
        j.check(bad == 0, "phi-mask", lambda: f"{bad} cells wrong, e.g. {first}")
        j.check(np.array_equal(P0, Phi, equal_nan=True), "phi-mutates", "input modified")
    # HC_cov
    Fc = t["Fn_cov"]
    F0 = Fc.copy()
    out = sut(gen.HC_cov, F0, case["cov_max"])
    if j.check(not raised(out), "cov-raises", lambda: f"{out!r}"):
        filt, mask = np.asarray(out[0]), np.asarray(out[1]).astype(bool)
        exp = Fc < case["cov_max"]
        j.check(np.array_equal(mask, exp), "cov-mask", "mask differs from cov < cov_max")
        j.check(np.array_equal(np.isnan(filt), ~mask) and np.array_equal(filt[mask], Fc[mask]), "cov-output", "filtered covariance not NaN exactly where mask is false")
        j.check(np.array_equal(F0, Fc, equal_nan=True), "cov-mutates", "input modified")
    # applymask
    mask = rng.random(Fn.shape) < 0.5
    lst = [Fn.copy(), None, Phi.copy(), Lam.copy()]
    out = sut(gen.applymask, lst, mask.copy(), Phi.shape[2])
    if j.check(not raised(out), "applymask-raises", lambda: f"{out!r}"):
        ok = len(out) == 4 and out[1] is None
        if ok:
            for src, o in ((Fn, out[0]), (Phi, out[2]), (Lam, out[3])):
                o = np.asarray(o)
                m = mask if src.ndim == 2 else np.repeat(mask[:, :, None], Phi.shape[2], axis=2)
                ok = ok and o.shape == src.shape and np.array_equal(o[m], src[m], equal_nan=True) and bool(np.all(np.isnan(o[~m])))
        j.check(ok, "applymask-output", "arrays not NaN exactly where the mask is false / values changed where true")
        j.check(np.array_equal(lst[0], Fn, equal_nan=True) and np.array_equal(lst[2], Phi, equal_nan=True), "applymask-mutates", "input modified")
    return j


# ---------------------------------------------------------------------------
# class level
# ---------------------------------------------------------------------------
CLASSES = ["SSIdat", "SSIcov", "SSIcov_unc", "SSIcov_R", "SSIdat_MS", "SSIcov_MS", "SSIcov_R_MS", "pLSCF", "pLSCF_MS"]


@st.composite
def class_case(draw, alg):
    ms = alg.endswith("_MS")
    nch = draw(st.integers(3, 5)) if ms else draw(st.integers(2, 4))
    s = draw(modal.system(1, 3, nch, nch, xi_lo=0.003, xi_hi=0.12, fr_lo=0.03, fr_hi=0.42))
    c = {"alg": alg, "sys": s, "seed": draw(st.integers(0, 2**32 - 1)), "noise": draw(st.sampled_from([0.05, 0.3])),
         "N": draw(st.integers(900, 1800)), "br": draw(st.integers(5, 9)), "ordmax": draw(st.integers(4, 12)),
         "conj": draw(st.booleans()),
         # every criterion is switched off (neutral value) in a good share of the cases, alone and together
         "xi_max": draw(st.one_of(st.sampled_from([0.05, 0.1, 0.2, 1.0, 1.0]), st.floats(0.01, 1.0))),
         "mpc_lim": draw(st.one_of(st.sampled_from([0.0, 0.0, 0.0, 0.5, 0.7, 0.9]), st.floats(0, 1))),
         "mpd_lim": draw(st.one_of(st.sampled_from([PI2, PI2, PI2, 0.1, 0.3, 0.8, 0.0]), st.floats(0.0, PI2))),  # 0.0 = the lower end of the allowed range
         "hc_order": draw(st.permutations(["conj", "xi_max", "mpc_lim", "mpd_lim", "cov_max"])),  # the user's own key order
         "decoy": draw(st.booleans()),
         "ordmin": draw(st.sampled_from([0, 0, 1, 2, 3])),
         "cov_max": draw(st.sampled_from([1e-4, 1e-2, 0.2, 1e6, 1e-12])),  # 1e-12: stricter than the most certain pole
         "conj_form": draw(st.sampled_from(["bool", "bool", "npbool", "int"])),  # True / np.True_ / 1 are the same switch
         "nxseg": draw(st.sampled_from([128, 256])), "method_SD": draw(st.sampled_from(["per", "cor"])),
         "refsub": draw(st.booleans()),
         # in a third of the cases the same algorithm object ran before with other criteria, which the user then changed
         "first_hc": draw(st.one_of(st.none(), st.none(), st.fixed_dictionaries({"conj": st.booleans(), "xi_max": st.sampled_from([0.02, 0.5, 1.0]),
                                    "mpc_lim": st.sampled_from([0.0, 0.6, 0.95]), "mpd_lim": st.sampled_from([PI2, 0.2, 0.02]), "cov_max": st.sampled_from([1e-5, 1e6])})))}
    r = 2 if (alg.startswith("SSI") and c["refsub"] and nch >= 3) else nch
    if ms:
        c["nsetup"] = draw(st.integers(2, 3))
        c["nref"] = draw(st.integers(1, 2))
        r = c["nref"]
    # precondition of the realisation: the model order cannot exceed the rank the Hankel matrix can have
    c["ordmax"] = max(2, min(c["ordmax"], c["br"] * r))
    return c


def _unfiltered(case, data, fs, ref_ind):
    """recompute the unfiltered solution with the library's own identification functions"""
    alg = case["alg"]
    dt = 1 / fs
    if alg.startswith("SSI") and not alg.endswith("_MS"):
        Y = data.T
        Yref = Y[ref_ind, :] if ref_ind is not None else Y
        method = {"SSIdat": "dat", "SSIcov": "cov_mm", "SSIcov_unc": "cov_mm", "SSIcov_R": "cov_R"}[alg]
        unc = alg == "SSIcov_unc"
        H, T = ssi.build_hank(Y=Y, Yref=Yref, br=case["br"], method=method, calc_unc=unc, nb=10)
        Obs, A, C, Q1, Q2, Q3, Q4 = ssi.SSI_fast(H, case["br"], case["ordmax"], step=1, calc_unc=unc, T=T, nb=10)
        Fn, Xi, Phi, Lam, Fc, Xc, Pc = ssi.SSI_poles(Obs, A, C, case["ordmax"], dt, step=1, calc_unc=unc, Q1=Q1, Q2=Q2, Q3=Q3, Q4=Q4)
        return dict(Fn=Fn, Xi=Xi, Phi=Phi, Lam=Lam, Fn_cov=Fc, Xi_cov=Xc)
    if alg in ("SSIdat_MS", "SSIcov_MS", "SSIcov_R_MS"):
        Obs, A, C = ssi.SSI_multi_setup(data, fs, case["br"], case["ordmax"], step=1, method_hank={"SSIdat_MS": "dat", "SSIcov_MS": "cov_mm", "SSIcov_R_MS": "cov_R"}[alg])
        Fn, Xi, Phi, Lam, _, _, _ = ssi.SSI_poles(Obs, A, C, case["ordmax"], dt, step=1, calc_unc=False)
        return dict(Fn=Fn, Xi=Xi, Phi=Phi, Lam=Lam, Fn_cov=None, Xi_cov=None)
    sgn = -1 if case["method_SD"] == "per" else +1
    if alg == "pLSCF":
        Y = data.T
        _, Sy = fdd.SD_est(Y, Y, dt, case["nxseg"], method=case["method_SD"], pov=0.5)
    else:
        _, Sy = fdd.SD_PreGER(data, fs, nxseg=case["nxseg"], method=case["method_SD"], pov=0.5)
    Ad, Bn = plscf.pLSCF(Sy, dt, case["ordmax"], sgn_basf=sgn)
    Fn, Xi, Phi, Lam = plscf.pLSCF_poles(Ad, Bn, dt, nxseg=case["nxseg"], methodSy=case["method_SD"])
    return dict(Fn=Fn, Xi=Xi, Phi=Phi, Lam=Lam, Fn_cov=None, Xi_cov=None)


def judge_class(case):
    j = J()
    alg = case["alg"]
    S = modal.Sys(case["sys"])
    hc = dict(conj=case["conj"], xi_max=case["xi_max"], mpc_lim=case["mpc_lim"], mpd_lim=case["mpd_lim"], cov_max=case["cov_max"])
    hc = {k_: hc[k_] for k_ in case.get("hc_order", list(hc))}
    hc["conj"] = {"bool": bool, "npbool": np.bool_, "int": int}[case.get("conj_form", "bool")](case["conj"])
    j.tag(alg, "conj_on" if case["conj"] else "conj_off")
    ms = alg.endswith("_MS")
    ref_ind = None
    if not ms:
        Y = modal.random_response(S, case["N"], case["seed"], noise=case["noise"])
        if alg.startswith("SSI") and case["refsub"] and S.nch >= 3:
            ref_ind = [S.nch - 1, 0]
        setup = SingleSetup(Y, fs=S.fs)
        data_for_U = Y
    else:
        k = case["nref"]
        datasets, refl = [], []
        rov = list(range(k, S.nch))
        for i in range(case["nsetup"]):
            mine = rov[i % len(rov) :: case["nsetup"]] or rov[:1]
            chans = list(range(k)) + mine
            Yi = modal.random_response(S, case["N"], case["seed"] + i, noise=case["noise"], channels=chans)
            # put the references at the end for odd setups
            if i % 2 == 1:
                order = list(range(k, len(chans))) + list(range(k))
                Yi = Yi[:, order]
                refl.append([len(chans) - k + q for q in range(k)])
            else:
                refl.append(list(range(k)))
            datasets.append(Yi)
        setup = MultiSetup_PreGER(fs=S.fs, ref_ind=refl, datasets=datasets)
        data_for_U = setup.data
    if alg in ("pLSCF", "pLSCF_MS"):
        cls = pLSCF if alg == "pLSCF" else pLSCF_MS
        hcp = {k_: v for k_, v in hc.items() if k_ != "cov_max"}
        a = cls(name="a", ordmax=case["ordmax"], ordmin=min(case.get("ordmin", 0), case["ordmax"] - 1), nxseg=case["nxseg"], method_SD=case["method_SD"], hc=hcp)
    else:
        cls = {"SSIdat": SSIdat, "SSIcov": SSIcov, "SSIcov_unc": SSIcov, "SSIcov_R": SSIcov, "SSIdat_MS": SSIdat_MS, "SSIcov_MS": SSIcov_MS, "SSIcov_R_MS": SSIcov_MS}[alg]
        kw = dict(name="a", br=case["br"], ordmax=case["ordmax"], ordmin=min(case.get("ordmin", 0), case["ordmax"]), hc=hc)
        if alg == "SSIcov_unc":
            kw.update(calc_unc=True, nb=10)
        if alg in ("SSIcov_R", "SSIcov_R_MS"):
            kw.update(method="cov_R")
        if ref_ind is not None:
            kw["ref_ind"] = ref_ind
        a = cls(**kw)
    if case.get("decoy"):
        # another algorithm of the same class with much stricter criteria, created afterwards and never added to a setup
        strict = dict(conj=True, xi_max=1e-6, mpc_lim=0.999, mpd_lim=1e-6, cov_max=1e-12)
        if alg in ("pLSCF", "pLSCF_MS"):
            strict.pop("cov_max")
            sut(lambda: cls(name="decoy", ordmax=case["ordmax"], nxseg=case["nxseg"], hc=strict))
        else:
            sut(lambda: cls(name="decoy", br=case["br"], ordmax=case["ordmax"], hc=strict))
        j.tag("decoy-algorithm")
    setup.add_algorithms(a)
    if case.get("first_hc"):
        first = dict(case["first_hc"])
        if alg in ("pLSCF", "pLSCF_MS"):
            first.pop("cov_max")
        final = a.run_params.hc
        a.run_params.hc = first
        r0 = sut(setup.run_by_name, "a")
        a.run_params.hc = final
        j.tag("criteria-changed-before-rerun")
        if raised(r0):
            j.skip("first-run-raised")
            return j
    r = sut(setup.run_by_name, "a")
    if not j.check(not raised(r), "run-raises", lambda: f"{r!r}"):
        return j
    U = sut(_unfiltered, case, data_for_U, S.fs, ref_ind)
    if raised(U):
        raise RuntimeError(f"harness could not recompute the unfiltered solution: {U!r}")
    res = a.result
    R = dict(Fn=np.asarray(res.Fn_poles), Xi=np.asarray(res.Xi_poles), Phi=np.asarray(res.Phi_poles),
             Lam=None if getattr(res, "Lambds", None) is None else np.asarray(res.Lambds),
             Fn_cov=getattr(res, "Fn_poles_cov", None), Xi_cov=getattr(res, "Xi_poles_cov", None))
    UFn = np.asarray(U["Fn"], dtype=float)
    if not j.check(R["Fn"].shape == UFn.shape and R["Phi"].shape == np.asarray(U["Phi"]).shape, "table-shape", lambda: f"{R['Fn'].shape} vs unfiltered {UFn.shape}"):
        return j
    UXi, UPhi, ULam = np.asarray(U["Xi"], dtype=float), np.asarray(U["Phi"]), np.asarray(U["Lam"])
    lamvals = ULam[np.isfinite(ULam)]
    rows, cols = UFn.shape
    rej = {"conj": 0, "damp": 0, "mpc": 0, "mpd": 0, "cov": 0}
    nret = 0
    unsound = incomplete = changed = 0
    first = None
    use_cov = U["Fn_cov"] is not None
    for o in range(cols):
        colvals = ULam[:, o][np.isfinite(ULam[:, o])]
        for i in range(rows):
            retained = bool(np.isfinite(R["Fn"][i, o]))
            if not (np.isfinite(UFn[i, o]) and np.isfinite(ULam[i, o])):
                if retained:
                    unsound += 1
                    first = first or f"cell ({i},{o}) retained but absent from the unfiltered solution"
                continue
            st_ = {}
            lam = ULam[i, o]
            cj_any = bool(np.any(lamvals == np.conj(lam)))
            cj_col = bool(np.any(colvals == np.conj(lam)))
            if case["conj"]:
                st_["conj"] = "pass" if cj_col else ("fail" if not cj_any else "unsure")
            xi = UXi[i, o]
            if abs(xi - case["xi_max"]) <= 1e-9 * case["xi_max"] or abs(xi) <= 1e-12:
                st_["damp"] = "unsure"
            else:
                st_["damp"] = "pass" if 0 < xi < case["xi_max"] else "fail"
            a_ = indicators.mpc(UPhi[i, o])
            b_ = indicators.mpd(UPhi[i, o])
            if not np.isfinite(a_) or abs(a_ - case["mpc_lim"]) <= 1e-9:
                st_["mpc"] = "unsure"
            else:
                st_["mpc"] = "pass" if a_ >= case["mpc_lim"] else "fail"
            if not np.isfinite(b_) or abs(b_ - case["mpd_lim"]) <= 1e-6 or indicators.mpd_anisotropy(UPhi[i, o]) <= 1e-6:
                st_["mpd"] = "unsure"
            else:
                st_["mpd"] = "pass" if b_ <= case["mpd_lim"] else "fail"
            if use_cov:
                cv = U["Fn_cov"][i, o]
                if not np.isfinite(cv) or abs(cv - case["cov_max"]) <= 1e-9 * case["cov_max"]:
                    st_["cov"] = "unsure"
                else:
                    st_["cov"] = "pass" if cv < case["cov_max"] else "fail"
            fails = [k_ for k_, v in st_.items() if v == "fail"]
            for k_ in fails:
                rej[k_] += 1
            if retained:
                nret += 1
                if fails:
                    unsound += 1
                    first = first or f"cell ({i},{o}) retained although it violates {fails}: fn={UFn[i,o]:.5g} xi={xi:.4g} MPC={a_:.4g} MPD={b_:.4g} limits={hc}"
                same = R["Fn"][i, o] == UFn[i, o] and R["Xi"][i, o] == UXi[i, o] and np.array_equal(R["Phi"][i, o], UPhi[i, o])
                if R["Lam"] is not None:
                    same = same and R["Lam"][i, o] == ULam[i, o]
                if use_cov:
                    same = same and R["Fn_cov"][i, o] == U["Fn_cov"][i, o] and R["Xi_cov"][i, o] == U["Xi_cov"][i, o]
                if not same:
                    changed += 1
                    first = first or f"cell ({i},{o}) retained with values different from the unfiltered solution"
            elif all(v == "pass" for v in st_.values()):
                incomplete += 1
                first = first or f"cell ({i},{o}) satisfies every criterion but was removed: fn={UFn[i,o]:.5g} xi={xi:.4g} MPC={a_:.4g} MPD={b_:.4g} limits={hc}"
    j.nchecks += rows * cols
    j.check(unsound == 0, "unsound", lambda: f"{unsound} retained poles violate a criterion; {first}")
    j.check(changed == 0, "values-changed", lambda: f"{changed} retained poles changed value; {first}")
    j.check(incomplete == 0, "incomplete", lambda: f"{incomplete} admissible poles removed; {first}")
    # one NaN pattern
    pat = np.isnan(R["Fn"])
    j.check(np.array_equal(np.isnan(R["Xi"]), pat), "pattern-xi", "Xi table has a different NaN pattern")
    pn = np.isnan(R["Phi"])
    j.check(bool(np.all(pn == pat[:, :, None])), "pattern-phi", "Phi table has a different NaN pattern")
    if R["Lam"] is not None:
        j.check(np.array_equal(np.isnan(R["Lam"]), pat), "pattern-lambda", "eigenvalue table has a different NaN pattern")
    if use_cov:
        j.check(R["Fn_cov"] is not None and np.array_equal(np.isnan(R["Fn_cov"]), pat) and np.array_equal(np.isnan(R["Xi_cov"]), pat), "pattern-cov", "covariance tables have a different NaN pattern")
    # extraction afterwards must leave the pole tables as they are
    fin_cols = [o for o in range(cols) if np.isfinite(R["Fn"][:, o]).any()]
    if fin_cols:
        o = fin_cols[len(fin_cols) // 2]
        f0 = float(np.nanmin(R["Fn"][:, o]))
        before = {k_: (None if v is None else np.array(v, copy=True)) for k_, v in R.items()}
        rm = sut(setup.mpe, "a", sel_freq=[f0], order=int(o), rtol=0.05)
        if j.check(not raised(rm), "mpe-raises", lambda: f"{rm!r}"):
            after = dict(Fn=res.Fn_poles, Xi=res.Xi_poles, Phi=res.Phi_poles, Lam=getattr(res, "Lambds", None), Fn_cov=getattr(res, "Fn_poles_cov", None), Xi_cov=getattr(res, "Xi_poles_cov", None))
            changed_ = [k_ for k_, v in before.items() if v is not None and not np.array_equal(np.asarray(after[k_]), v, equal_nan=True)]
            j.check(not changed_, "tables-changed-by-mpe", lambda: f"mpe(order={o}) modified the pole tables {changed_}")
    kinds = sum(1 for v in rej.values() if v > 0)
    for k_, v in rej.items():
        if v:
            j.tag("rejects:" + k_)
    j.nontrivial(kinds >= 2 and nret >= 1)
    return j


def _mk(alg):
    return Sub("class_" + alg, judge_class, class_case(alg), quick=40, thorough=3000,
               rule=f"{alg} through its setup: every cell of the result tables judged against the recomputed unfiltered solution and the criteria")


SUBS = [
    Sub("functions", judge_functions, fun_case(), quick=300, thorough=20000,
        rule="HC_conj / HC_damp / HC_phi_comp / HC_cov / applymask on generated tables: mask true iff criterion holds, NaN exactly where false, inputs not mutated"),
] + [_mk(a) for a in CLASSES]
