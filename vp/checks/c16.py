"""C16 - interactive pole picking hands over exactly the picked (frequency, order) pairs.

Model-based testing of click histories on a head-less SelFromPlot against a list-of-pairs model."""
from __future__ import annotations

import itertools

import matplotlib
import numpy as np
from hypothesis import strategies as st

from pyoma2.algorithms import EFDD, FDD, FSDD, SSIcov, pLSCF
from pyoma2.algorithms.data.result import EFDDResult, FDDResult, SSIResult, pLSCFResult
from pyoma2.functions import fdd
from pyoma2.setup import SingleSetup

from .. import headless, tables
from ..core import J, Sub, raised, rng_of, sut

PROPERTY = "C16"
RULE = (
    "sequences of select / deselect-one / deselect-nearest actions with and without the modifier key on the stabilisation diagram (SSI, pLSCF) "
    "and the singular-value plot (FDD): all sequences up to length 3 (quick) / 4 (thorough; 5 for the SSI variant) over a 10-symbol alphabet on a small table "
    "enumerated against a list-of-pairs model, arbitrary tables and coordinates generated (genuine matplotlib events on an Agg canvas); "
    "non-trivial = >= 2 picks not in ascending frequency order, or a deselection after >= 2 picks"
)
ASSUMPTIONS = [
    "tkinter.Tk/Menu, FigureCanvasTkAgg and NavigationToolbar2Tk are stubbed; events are built from data coordinates inside the axes",
    "clicks are placed at least 0.05 away from half-integer orders and only at orders that hold a retained pole (a click on an empty order raises inside the handler; outside the stated behaviour)",
    "deselect-one may remove any one entry; nearest-frequency ties may be resolved either way",
]

FS = 50.0


# ---------------------------------------------------------------------------
# algorithm with installed results
# ---------------------------------------------------------------------------
def _install(kind, t, fs=None, ordmin=0):
    Fn = t["Fn"]
    ss = SingleSetup(np.zeros((16, t["Phi"].shape[2])), fs=FS if fs is None else fs)
    if kind == "SSI":
        alg = SSIcov(name="a", br=4, ordmax=Fn.shape[1] - 1, ordmin=min(ordmin, Fn.shape[1] - 1))
        ss.add_algorithms(alg)
        alg.result = SSIResult(Fn_poles=Fn.copy(), Xi_poles=t["Xi"].copy(), Phi_poles=t["Phi"].copy(), Lab=t["Lab"].copy())
    else:
        alg = pLSCF(name="a", ordmax=Fn.shape[1], ordmin=min(ordmin, Fn.shape[1] - 1))
        ss.add_algorithms(alg)
        alg.result = pLSCFResult(Fn_poles=Fn.copy(), Xi_poles=t["Xi"].copy(), Phi_poles=t["Phi"].copy(), Lab=t["Lab"].copy())
    return ss, alg


BELL = {"fr": 0.2, "xi": 0.03, "phi": [1.0, 0.6, -0.4]}  # one resolved mode at 0.2 fs for the EFDD / FSDD dialogs
EF_KW = dict(DF1=0.6, DF2=3.0)  # non-default analysis bands


def _install_fdd(case):
    rng = rng_of(case["seed"])
    if case.get("fddcls", "FDD") != "FDD":
        from .c07 import _matrix

        nf = 513
        freq, Sy, _, _, _ = _matrix(dict(BELL, fs=FS, nxseg=2 * (nf - 1)))
        ss = SingleSetup(np.zeros((16, 3)), fs=FS)
        alg = (EFDD if case["fddcls"] == "EFDD" else FSDD)(name="a", nxseg=2 * (nf - 1))
        ss.add_algorithms(alg)
        sv = fdd.SD_svalsvec(Sy)
        alg.result = EFDDResult(freq=freq, Sy=Sy, S_val=sv[0], S_vec=sv[1])
        return ss, alg, freq
    n, nf = 3, case["nf"]
    freq = np.arange(nf) * (FS / 2) / (nf - 1)
    F = rng.normal(size=(n, n, nf)) + 1j * rng.normal(size=(n, n, nf))
    Sy = np.einsum("ijk,ljk->ilk", F, F.conj())
    ss = SingleSetup(np.zeros((16, n)), fs=FS)
    alg = FDD(name="a", nxseg=2 * (nf - 1))
    ss.add_algorithms(alg)
    sv = fdd.SD_svalsvec(Sy)
    alg.result = FDDResult(freq=freq, Sy=Sy, S_val=sv[0], S_vec=sv[1])
    return ss, alg, freq


SMALL = {"rows": 4, "cols": 5, "nch": 2, "nmodes": 2, "pert": 0.0, "pnan": 0.25, "pmiss": 0.0, "dup": False, "complex": False,
         "cluster": False, "empty_col": False, "cov": False, "fscale": 1.0, "seed": 3, "empty0": True}


def _table(tc):
    t = tables.build(tc)
    if tc.get("empty0"):
        # order 0 holds no pole (as in every SSI table)
        t["Fn"][:, 0] = np.nan
        t["Xi"][:, 0] = np.nan
        t["Phi"][:, 0, :] = np.nan
    rng = rng_of(tc["seed"] + 11)
    t["Lab"] = (np.isfinite(t["Fn"]) & (rng.random(t["Fn"].shape) < 0.6)).astype(int)
    return t


# ---------------------------------------------------------------------------
# the model and the interpreter
# ---------------------------------------------------------------------------
def _play(j, dlg, kind, actions, Fn, freq, real_events):
    """plays actions on the dialog, checks the model after every action; returns the model list"""
    model = []  # list of (freq, order) ; order None for FDD
    npick = 0
    out_of_order = False
    desel_after2 = False
    shift = None

    def set_shift(on):
        nonlocal shift
        if shift is on:
            return
        if real_events:
            headless.key(dlg, "shift", on)
        else:
            headless.direct_key(dlg, "shift", on)
        shift = on

    def state():
        if kind == "FDD":
            return sorted((float(f), None) for f in dlg.sel_freq)
        if len(dlg.sel_freq) != len(dlg.pole_ind):
            return None
        return sorted((float(f), int(o)) for f, o in zip(dlg.sel_freq, dlg.pole_ind))

    for step, a in enumerate(actions, start=1):
        set_shift(bool(a["shift"]))
        x, y = np.float64(a["x"]), np.float64(a["y"])
        button = {"select": 1, "deselect_nearest": 2, "deselect_one": 3}[a["act"]]
        before = list(model)
        if a.get("mid") is not None and len(before) >= 2:
            # aim between two selected entries: 'mid' = [pair index, offset from the midpoint as a fraction of the gap]
            fr = sorted(p[0] for p in before)
            i_ = int(a["mid"][0]) % (len(fr) - 1)
            if fr[i_ + 1] > fr[i_]:
                x = np.float64(0.5 * (fr[i_] + fr[i_ + 1]) + a["mid"][1] * (fr[i_ + 1] - fr[i_]))
        if real_events:
            # keep the click inside the axes (outside, matplotlib reports no data coordinates)
            dlg.fig.canvas.draw()
            (x0, x1), (y0, y1) = dlg.ax2.get_xlim(), dlg.ax2.get_ylim()
            x = np.float64(min(max(x, x0 + 0.02 * (x1 - x0)), x1 - 0.02 * (x1 - x0)))
            y = np.float64(min(max(y, y0 + 0.02 * (y1 - y0)), y1 - 0.02 * (y1 - y0)))
            if kind != "FDD" and a["act"] == "select" and a["shift"]:
                o_ = int(np.argmin(np.abs(np.arange(Fn.shape[1]) - y)))
                if abs(abs(y - o_) - 0.5) < 0.05:
                    j.skip("click-between-two-orders")
                    continue
                if not np.isfinite(Fn[:, o_]).any():
                    # a pick aimed at an order without retained poles selects nothing (the handler may raise); what is
                    # selected stays as it is and the two lists stay in step
                    sut(headless.click, dlg, x, y, button)
                    got = state()
                    j.tag("pick-on-empty-order")
                    if not j.check(got is not None and sorted(got, key=_key) == sorted(before, key=_key), "empty-order-pick-changed-selection",
                                   lambda: f"step {step}: a pick at order {o_} (no retained pole) changed the selection {before} -> {got} (frequencies {list(dlg.sel_freq)}, orders {list(dlg.pole_ind)})"):
                        return None
                    continue
            r = sut(headless.click, dlg, x, y, button)
        else:
            if kind != "FDD" and a["act"] == "select" and a["shift"] and not np.isfinite(Fn[:, int(np.argmin(np.abs(np.arange(Fn.shape[1]) - y)))]).any():
                sut(headless.direct_click, dlg, x, y, button)
                got = state()
                j.tag("pick-on-empty-order")
                if not j.check(got is not None and sorted(got, key=_key) == sorted(before, key=_key), "empty-order-pick-changed-selection",
                               lambda: f"step {step}: a pick at an order without retained poles changed the selection {before} -> {got} (frequencies {list(dlg.sel_freq)}, orders {list(dlg.pole_ind)})"):
                    return None
                continue
            r = sut(headless.direct_click, dlg, x, y, button)
        if not j.check(not raised(r), "handler-raises", lambda: f"step {step} {a}: {r!r}"):
            return None
        if real_events and not raised(r):
            x, y = r.xdata, r.ydata  # what the handler really saw
        got = state()
        if not j.check(got is not None, "lists-out-of-step", lambda: f"step {step}: {len(dlg.sel_freq)} frequencies but {len(dlg.pole_ind)} orders"):
            return None
        if not a["shift"]:
            j.check(got == sorted(before, key=lambda p: (p[0], -1 if p[1] is None else p[1])), "unmodified-action-changed-selection", lambda: f"step {step} {a['act']} without the modifier changed the selection: {before} -> {got}")
            continue
        if a["act"] == "select":
            if kind == "FDD":
                d = np.abs(freq - x)
                cands = [(float(freq[k]), None) for k in np.nonzero(d == d.min())[0]]
            else:
                o = int(np.argmin(np.abs(np.arange(Fn.shape[1]) - y)))
                col = Fn[:, o]
                d = np.abs(col - x)
                dm = np.nanmin(d)
                cands = [(float(col[k]), o) for k in np.nonzero(d == dm)[0]]
            if model and cands[0][0] < max(p[0] for p in model):
                out_of_order = True
            npick += 1
            ok = any(sorted(before + [c], key=_key) == sorted(got, key=_key) for c in cands)
            if not j.check(ok, "select", lambda: f"step {step}: pick at ({float(x):.4g},{float(y):.4g}) should add one of {cands}; selection {before} -> {got}"):
                return None
            model = list(got)
        elif a["act"] == "deselect_one":
            if not before:
                j.check(got == [], "deselect-empty", lambda: f"step {step}: {got}")
                continue
            if len(before) >= 2:
                desel_after2 = True
            ok = any(sorted(before[:i] + before[i + 1 :], key=_key) == sorted(got, key=_key) for i in range(len(before)))
            if not j.check(ok, "deselect-one", lambda: f"step {step}: deselect-one must remove exactly one entry: {before} -> {got}"):
                return None
            model = list(got)
        else:
            if not before:
                j.check(got == [], "deselect-empty", lambda: f"step {step}: {got}")
                continue
            if len(before) >= 2:
                desel_after2 = True
            d = np.array([abs(p[0] - x) for p in before])
            idx = [i for i in range(len(before)) if d[i] == d.min()]
            ok = any(sorted(before[:i] + before[i + 1 :], key=_key) == sorted(got, key=_key) for i in idx)
            if not j.check(ok, "deselect-nearest", lambda: f"step {step}: deselect-nearest at x={float(x):.4g} must remove the entry nearest in frequency from {before}; got {got}"):
                return None
            model = list(got)
    set_shift(False)
    j.nontrivial(out_of_order and npick >= 2 or desel_after2)
    if out_of_order:
        j.tag("picks_out_of_order")
    if desel_after2:
        j.tag("deselect_after_2_picks")
    return model


def _key(p):
    return (p[0], -1 if p[1] is None else p[1])


def judge_dialog(case):
    j = J()
    kind = case["kind"]
    real = bool(case.get("real_events"))
    j.tag(kind, "real_events" if real else "direct_handlers")
    holder = {}
    if kind == "FDD":
        ss, alg, freq = _install_fdd(case)
        Fn = None
    else:
        t = _table(case["table"])
        fsc = float(case["table"].get("fscale", 1.0))
        ss, alg = _install(kind, t, fs=FS * fsc, ordmin=case.get("ordmin", 0))
        Fn, freq = t["Fn"], None
        if case.get("ordmin"):
            j.tag("ordmin>0")
        if case.get("prior"):
            # modes were extracted on this object before the dialog is opened: the dialog's selection replaces them
            cells = np.argwhere(np.isfinite(Fn))
            if len(cells):
                i_, o_ = [int(v) for v in cells[case["prior"] % len(cells)]]
                sut(ss.mpe, "a", sel_freq=[float(Fn[i_, o_])], order=o_, rtol=1e-6)
                j.tag("modes-extracted-before")

    def script(dlg):
        holder["model"] = _play(j, dlg, kind, case["actions"], Fn, freq, real)
        holder["final"] = (list(dlg.sel_freq), None if kind == "FDD" else list(dlg.pole_ind))

    matplotlib.pyplot.close("all")
    fsc = float(case["table"].get("fscale", 1.0)) if kind != "FDD" else 1.0
    fl = case.get("freqlim") or [0.0, FS / 2]  # displayed band; picks are not restricted to it
    if fl != [0.0, FS / 2]:
        j.tag("freqlim-window")
    if fsc != 1.0:
        j.tag("frequency-unit-scaled")
    with headless.patched(script, fast=not real):
        if kind == "FDD" and case.get("fddcls", "FDD") != "FDD":
            r = sut(ss.mpe_from_plot, "a", freqlim=(fl[0], fl[1]), **EF_KW)
        elif kind == "FDD":
            r = sut(ss.mpe_from_plot, "a", freqlim=(fl[0], fl[1]), DF=1.0)
        else:
            r = sut(ss.mpe_from_plot, "a", freqlim=(fl[0] * fsc, fl[1] * fsc), rtol=case.get("rtol") or 1e-6)
    matplotlib.pyplot.close("all")
    model = holder.get("model")
    if model is None:
        if not j.fails:
            j.check(not raised(r), "dialog-raises", lambda: f"{r!r}")
        return j
    if kind == "FDD":
        if model:
            j.check(not raised(r), "mpe-from-plot-raises", lambda: f"{r!r}")
        # hand-over: the selected frequency lines
        j.check(sorted(float(f) for f in holder["final"][0]) == sorted(p[0] for p in model), "handover", lambda: f"handed over {holder['final'][0]}, selected {model}")
        efd = case.get("fddcls", "FDD") != "FDD"
        j.tag("class=" + case.get("fddcls", "FDD"))
        if model and not raised(r):
            j.check(np.asarray(alg.result.Fn).reshape(-1).shape == (len(model),), "extracted-count", lambda: f"{np.asarray(alg.result.Fn).shape} modes for {len(model)} selected lines")
        if model:
            # the dialog is only another way of choosing sel_freq: a twin object given the handed-over lines (and the same
            # analysis bands) through the non-interactive mpe must produce the same modes
            ss2, alg2, _ = _install_fdd(case)
            r2 = sut(ss2.mpe, "a", sel_freq=[float(f) for f in holder["final"][0]], **(EF_KW if efd else dict(DF=1.0)))
            if raised(r) or raised(r2):
                j.check(raised(r) and raised(r2), "interactive-differs", lambda: f"mpe_from_plot: {r!r}; mpe with the same lines and bands: {r2!r}")
            else:
                same = all(np.array_equal(np.asarray(getattr(alg.result, k_)), np.asarray(getattr(alg2.result, k_)), equal_nan=True) for k_ in (("Fn", "Xi", "Phi") if efd else ("Fn", "Phi")))
                j.check(same, "interactive-differs", lambda: f"mpe_from_plot gives Fn={np.asarray(alg.result.Fn).tolist()}, mpe with the same lines and bands gives {np.asarray(alg2.result.Fn).tolist()}")
        return j
    if not j.check(not raised(r), "mpe-from-plot-raises", lambda: f"{r!r}"):
        return j
    res = alg.result
    fn = np.asarray(res.Fn).reshape(-1)
    oo = np.asarray(res.order_out).reshape(-1) if res.order_out is not None else np.array([])
    if not model:
        j.check(fn.size == 0, "extracted-empty", lambda: f"{fn}")
        return j
    if j.check(fn.size == len(model) and oo.size == len(model), "extracted-count", lambda: f"{fn.size} modes / {oo.size} orders extracted for {len(model)} selected poles {model}"):
        got = sorted(((float(f), int(o)) for f, o in zip(fn, oo)), key=_key)
        j.check(got == sorted(model, key=_key), "extracted-poles", lambda: f"extracted (fn, order) pairs {got} differ from the picked poles {sorted(model, key=_key)}")
        # differential: a twin object given the same pairs through the non-interactive mpe returns the same modes
        ss2, alg2 = _install(kind, t, fs=FS * fsc, ordmin=case.get("ordmin", 0))
        pairs = sorted(model, key=_key)
        r2 = sut(ss2.mpe, "a", sel_freq=[p[0] for p in pairs], order=[int(p[1]) for p in pairs], rtol=case.get("rtol") or 1e-6)
        if j.check(not raised(r2), "twin-mpe-raises", lambda: f"{r2!r}"):
            def rows(res_):
                F, X, P, O = np.asarray(res_.Fn).reshape(-1), np.asarray(res_.Xi).reshape(-1), np.asarray(res_.Phi), np.asarray(res_.order_out).reshape(-1)
                if P.ndim != 2 or P.shape[1] != F.size or X.size != F.size:
                    return None
                return sorted((float(F[q]), int(O[q]), float(X[q]), tuple(np.round(P[:, q], 12).tolist())) for q in range(F.size))
            a_, b_ = rows(res), rows(alg2.result)
            j.check(a_ is not None and a_ == b_, "interactive-differs", lambda: f"modes after the dialog {a_} differ from mpe(sel_freq, order list) on a twin object {b_}")
    return j


# ---------------------------------------------------------------------------
# enumeration over a small table
# ---------------------------------------------------------------------------
def _alphabet(kind):
    if kind == "FDD":
        # nf = 65 lines over 0..25 Hz (spacing 0.390625): lines 8, 29, 18 and 51
        sel = [(3.1, -5.0), (11.3, -8.0), (7.2, -3.0), (19.9, -9.0)]
    else:
        t = _table(SMALL)
        Fn = t["Fn"]
        # positions aimed at (order, frequency) cells, deliberately not in ascending frequency order
        # the two physical modes keep bit-identical frequencies over the orders (pert = 0): picks aim at
        # mode 1 @ order 3, mode 0 @ order 1, mode 1 @ order 4 (same frequency, other order), mode 0 @ order 2
        f0 = sorted(float(v) for v in t["f0"])
        sel = [(f0[1] * 1.01, 3.2), (f0[0] * 0.99, 0.9), (f0[1] * 0.995, 4.1), (f0[0] * 1.02, 2.2)]
    sym = [{"act": "select", "x": x, "y": y, "shift": True} for x, y in sel]
    if kind != "FDD":
        sym.append({"act": "select", "x": sel[1][0], "y": 0.1, "shift": True, "empty": True})  # a pick aimed at order 0, which holds no pole
    sym.append({"act": "deselect_one", "x": 5.0, "y": 1.0, "shift": True})
    sym.append({"act": "deselect_nearest", "x": 2.0, "y": 1.0, "shift": True})
    # just right of the midpoint between the first two selected entries (nearer the upper one)
    sym.append({"act": "deselect_nearest", "x": 14.0, "y": 2.0, "shift": True, "mid": [0, 0.04]})
    # just left of it (nearer the lower one)
    sym.append({"act": "deselect_nearest", "x": 14.0, "y": 2.0, "shift": True, "mid": [0, -0.04]})
    sym.append({"act": "select", "x": sel[0][0], "y": sel[0][1], "shift": False})
    sym.append({"act": "deselect_one", "x": 5.0, "y": 1.0, "shift": False})
    sym.append({"act": "deselect_nearest", "x": 2.0, "y": 1.0, "shift": False})
    return sym


def enum_dialog(kind):
    def f(tier):
        L = 3 if tier == "quick" else 4
        sym = _alphabet(kind)
        cases = []
        for n in range(1, L + 1):
            for seq in itertools.product(range(len(sym)), repeat=n):
                c = {"kind": kind, "actions": [sym[i] for i in seq]}
                if kind == "FDD":
                    c.update(seed=5, nf=65)
                else:
                    c["table"] = SMALL
                    c["prior"] = sum(seq) % 2  # half of the sequences run on an object that already holds extracted modes
                cases.append(c)
        return cases, True

    return f


@st.composite
def machine_case(draw, kind):
    c = {"kind": kind, "real_events": True}
    if kind == "FDD":
        c.update(seed=draw(st.integers(0, 2**32 - 1)), nf=draw(st.sampled_from([33, 65, 129])), fddcls=draw(st.sampled_from(["FDD", "FDD", "EFDD", "FSDD"])))
        fmax, cols = FS / 2, None
    else:
        tc = draw(tables.table_case(max_rows=8, max_cols=12, min_cols=3))
        tc["fscale"] = draw(st.sampled_from([1.0, 1.0, 1.0, 1e-6, 1e-9, 1e3]))  # the same tables in another frequency unit (slow processes, kHz)
        tc["empty_col"] = False
        tc["pnan"] = min(tc["pnan"], 0.3)
        c["table"] = tc
        t = tables.build(tc)
        cols = [o for o in range(t["Fn"].shape[1]) if np.isfinite(t["Fn"][:, o]).any()]
        if not cols:
            tc["pnan"] = 0.0
            tc["nmodes"] = max(1, tc["nmodes"])
            cols = list(range(tc["cols"]))
    fsc = 1.0 if kind == "FDD" else c["table"]["fscale"]
    c["freqlim"] = draw(st.sampled_from([None, None, [3.0, 21.0], [6.5, 24.0], [0.0, 12.0]] + ([[-3.0, 12.0]] if kind == "FDD" else [])))  # a window may start below 0 Hz
    c["rtol"] = draw(st.sampled_from([1e-6, 1e-6, 0.01, 0.05])) if kind != "FDD" else None  # tolerance of the extraction that follows the dialog
    c["prior"] = draw(st.sampled_from([0, 0, 1, 5, 11])) if kind != "FDD" else 0
    c["ordmin"] = draw(st.sampled_from([0, 0, 2, 4])) if kind != "FDD" else 0  # poles below ordmin stay in the tables and on the chart
    xlo, xhi = (0.3, 24.5) if c["freqlim"] is None else (c["freqlim"][0] + 0.2, c["freqlim"][1] - 0.2)
    acts = []
    for _ in range(draw(st.integers(1, 6))):
        a = draw(st.sampled_from(["select", "select", "select", "deselect_one", "deselect_nearest"]))
        x = draw(st.floats(xlo, xhi)) * fsc
        if kind == "FDD" and c.get("fddcls") != "FDD":
            x = BELL["fr"] * FS + draw(st.floats(-0.8, 0.8))  # picks on the bell (elsewhere the damping fit has nothing to fit)
        if kind == "FDD":
            y = draw(st.floats(-40.0, -1.0))
        else:
            o = draw(st.sampled_from(cols * 4 + list(range(c["table"]["cols"]))))  # now and then an order that holds no retained pole
            y = o + draw(st.floats(-0.45, 0.45))
            y = min(max(y, 0.05), c["table"]["cols"] - 1 + 0.45)
        act = {"act": a, "x": x, "y": y, "shift": draw(st.integers(0, 5)) != 0}
        if a == "deselect_nearest" and draw(st.booleans()):
            act["mid"] = [draw(st.integers(0, 3)), draw(st.sampled_from([0.02, -0.02, 0.2, -0.2, 0.45, -0.45]))]
        acts.append(act)
    c["actions"] = acts
    return c


def _subs():
    out = []
    for kind, nm in (("SSI", "ssi"), ("pLSCF", "plscf"), ("FDD", "fdd")):
        out.append(Sub(f"enumerate_{nm}", judge_dialog, enum=enum_dialog(kind), shards_quick=16, shards_thorough=16,
                       rule=f"{kind} dialog: every action sequence up to length 3 (quick) / 4 (thorough) over 4 picks (5 on the stabilisation diagrams: one aimed at the empty order 0), deselect-one, 3 deselect-nearest (one aimed either side of the midpoint of two selected entries) and 3 un-modified actions, handlers called directly"))
    for kind, nm in (("SSI", "ssi"), ("pLSCF", "plscf"), ("FDD", "fdd")):
        out.append(Sub(f"machine_{nm}", judge_dialog, machine_case(kind), quick=32, thorough=3000,
                       rule=f"{kind} dialog: generated tables and up to 6 actions at arbitrary coordinates, dispatched as genuine matplotlib Mouse/Key events"))
    return out


SUBS = _subs()
