"""C01 - SSI recovers exact modal parameters from noise-free free-vibration data."""
from __future__ import annotations

import math

import numpy as np
from hypothesis import strategies as st

from pyoma2.algorithms import SSIcov, SSIdat
from pyoma2.functions import ssi
from pyoma2.setup import SingleSetup

from .. import modal
from ..core import relayout, J, Sub, mac, raised, rng_of, sut

PROPERTY = "C01"
RULE = (
    "systems with m=1..6 modes (real/complex shapes, damping 0.2-8 %, fn in (0.01,0.45) fs), 2..8 channels, "
    "reference subsets, block rows >= ceil(2m/r)+1, drawn initial amplitudes; oracle = the known system; "
    "non-trivial = m>=2 or complex shapes or a proper reference subset or br above the minimum"
)
ASSUMPTIONS = [
    "tolerance c*kappa*eps with kappa = sigma_1/sigma_2m of the exact Hankel matrix built by the harness (kappa <= 1e6, else not judged)",
    "mode shapes whose components are all equal are excluded (MPC is NaN there: known finding C18-mpc-all-equal)",
    "hard criteria set to neutral values (conj off, xi_max=1, mpc_lim=0, mpd_lim=pi/2): C09 decides the filtering",
]

NEUTRAL_HC = dict(conj=False, xi_max=1.0, mpc_lim=0.0, mpd_lim=math.pi / 2 + 1e-9, cov_max=1e300)
NEUTRAL_SC = dict(err_fn=0.01, err_xi=0.05, err_phi=0.03)
KAPPA_MAX = 1e6
import os
CTOL = float(os.environ.get("VP_C01_CTOL", "1e-9"))  # tolerance = CTOL * kappa


def _observed(S, refs, thr=1e-3):
    """every mode visible in the reference channels (relative to its largest component)"""
    P = np.abs(S.Phi)
    return bool(np.all(P[refs, :].max(axis=0) >= thr * P.max(axis=0)))


def _all_equal_shape(S):
    for k in range(S.m):
        p = S.Phi[:, k]
        if np.all(p == p[0]):
            return True
    return False


def _judge_column(j, S, fn, xi, phi, lam, tol, tag):
    """fn, xi (2m,), phi (2m, nch): exactly m conjugate pairs equal to the truth."""
    m = S.m
    fin = np.isfinite(fn)
    if not j.check(int(fin.sum()) == 2 * m, f"{tag}-count", lambda: f"{int(fin.sum())} finite poles at order {2*m}, expected {2*m}: fn={fn.tolist()}"):
        return
    used = set()
    for k in range(m):
        d = np.abs(fn - S.fn[k]) / S.fn[k] + np.abs(xi - S.xi[k])
        idx = [int(i) for i in np.argsort(d)[:2]]
        for i in idx:
            j.check(i not in used, f"{tag}-distinct", lambda: f"pole {i} matched to two modes")
            used.add(i)
            efn = abs(fn[i] - S.fn[k]) / S.fn[k]
            exi = abs(xi[i] - S.xi[k])
            if lam is not None and np.isfinite(lam[i]):
                ref = S.Phi[:, k] if lam[i].imag >= 0 else np.conj(S.Phi[:, k])
                emac = 1 - mac(phi[i], ref)
            else:
                emac = 1 - max(mac(phi[i], S.Phi[:, k]), mac(phi[i], np.conj(S.Phi[:, k])))
            j.check(efn <= tol, f"{tag}-fn", lambda: f"mode {k}: fn={fn[i]!r} true={S.fn[k]!r} rel.err={efn:.3e} tol={tol:.3e}")
            j.check(exi <= tol, f"{tag}-xi", lambda: f"mode {k}: xi={xi[i]!r} true={S.xi[k]!r} err={exi:.3e} tol={tol:.3e}")
            j.check(emac <= max(tol, 1e-12), f"{tag}-mac", lambda: f"mode {k}: 1-MAC={emac:.3e} tol={tol:.3e} phi={np.round(phi[i],4).tolist()} true={np.round(S.Phi[:,k],4).tolist()}")
            # unity normalisation
            pk = phi[i]
            j.check(np.max(np.abs(pk)) <= 1 + 1e-9 and np.min(np.abs(pk - 1)) <= 1e-9, f"{tag}-norm", lambda: f"not unity-normalised: {pk.tolist()}")
        if lam is not None:
            a, b = lam[idx[0]], lam[idx[1]]
            j.check(abs(a - np.conj(b)) <= max(tol, 1e-12) * abs(a) * 10, f"{tag}-conj", lambda: f"poles {a!r},{b!r} not a conjugate pair")


# ---------------------------------------------------------------------------
# realisation from an exact Hankel matrix
# ---------------------------------------------------------------------------
@st.composite
def realisation_case(draw):
    s = draw(modal.system(1, 6, 1, 8))
    m = len(s["fr"])
    l = len(s["phi"][0])
    r = draw(st.integers(1, l))
    refs = sorted(draw(st.lists(st.integers(0, l - 1), min_size=r, max_size=r, unique=True)))
    brmin = max(math.ceil(2 * m / r), math.ceil(2 * m / l)) + 1
    br = brmin + draw(st.integers(0, 6))
    return {"sys": s, "refs": refs, "br": br, "brmin": brmin, "seedG": draw(st.integers(0, 2**32 - 1))}


def judge_realisation(case):
    j = J()
    S = modal.Sys(case["sys"])
    m, l = S.m, S.nch
    refs, br = case["refs"], case["br"]
    r = len(refs)
    j.tag(f"m={m}", "complex" if case["sys"]["complex"] else "real", "refsubset" if r < l else "allref")
    j.nontrivial(m >= 2 or case["sys"]["complex"] or r < l or br > case["brmin"])
    if not _observed(S, list(range(l))):
        j.skip("mode-unobserved")
        return j
    rng = rng_of(case["seedG"])
    T = rng.normal(size=(2 * m, 2 * m)) + 2 * np.eye(2 * m)
    if np.linalg.cond(T) > 1e3:
        T = np.eye(2 * m)
    O, A, C = S.observability(br + 1, T=T)
    G = rng.normal(size=(2 * m, r))
    Gam = np.hstack([np.linalg.matrix_power(A, k) @ G for k in range(br + 1)])
    H = O @ Gam
    sv = np.linalg.svd(H, compute_uv=False)
    kappa = sv[0] / sv[2 * m - 1] if sv[2 * m - 1] > 0 else np.inf
    # conditioning of the shift-invariance step: O without last block must have full column rank
    so = np.linalg.svd(O[:-l], compute_uv=False)
    kappa = max(kappa, so[0] / max(so[-1], 1e-300))
    if not kappa <= KAPPA_MAX:
        j.skip("kappa>1e6")
        return j
    tol = CTOL * kappa
    ordmax = 2 * m
    # fast
    res = sut(ssi.SSI_fast, H.copy(), br, ordmax)
    if j.check(not raised(res), "fast-raises", lambda: f"{res!r}"):
        Obs, AA, CC = res[0], res[1], res[2]
        pol = sut(ssi.SSI_poles, Obs, AA, CC, ordmax, S.dt)
        if j.check(not raised(pol), "fast-poles-raises", lambda: f"{pol!r}"):
            Fn, Xi, Phi, Lam = pol[0], pol[1], pol[2], pol[3]
            if j.check(Fn.shape == (ordmax, ordmax + 1) and Phi.shape == (ordmax, ordmax + 1, l), "fast-shape", lambda: f"{Fn.shape} {Phi.shape}"):
                _judge_column(j, S, Fn[:, ordmax], Xi[:, ordmax], Phi[:, ordmax, :], Lam[:, ordmax], tol, "fast")
        am = sut(ssi.ac2mp, AA[ordmax], CC[ordmax], S.dt)
        if j.check(not raised(am), "ac2mp-raises", lambda: f"{am!r}"):
            _judge_column(j, S, np.asarray(am[0]), np.asarray(am[1]), np.asarray(am[2]), np.asarray(am[3]), tol, "ac2mp")
    # legacy
    res = sut(ssi.SSI, H.copy(), br, ordmax)
    if j.check(not raised(res), "legacy-raises", lambda: f"{res!r}"):
        AA, CC = res
        pol = sut(ssi.SSI_poles, None, AA, CC, ordmax, S.dt)
        if j.check(not raised(pol), "legacy-poles-raises", lambda: f"{pol!r}"):
            Fn, Xi, Phi, Lam = pol[0], pol[1], pol[2], pol[3]
            _judge_column(j, S, Fn[:, ordmax], Xi[:, ordmax], Phi[:, ordmax, :], Lam[:, ordmax], tol, "legacy")
    return j


# ---------------------------------------------------------------------------
# through SingleSetup
# ---------------------------------------------------------------------------
@st.composite
def setup_case(draw, method):
    s = draw(modal.system(1, 6, 2, 8))
    m = len(s["fr"])
    l = len(s["phi"][0])
    r = draw(st.integers(1, l))
    refs = draw(st.lists(st.integers(0, l - 1), min_size=r, max_size=r, unique=True))
    if draw(st.booleans()):
        refs = sorted(refs)
    allref = r == l and refs == list(range(l)) and draw(st.booleans())
    # construction instead of rejection: every mode visible at some reference channel
    for k in range(m):
        ph = s["phi"][k]
        if max(abs(ph[c][0]) + abs(ph[c][1]) for c in refs) < 0.05:
            ph[refs[draw(st.integers(0, r - 1))]][0] = draw(st.sampled_from([1.0, -0.5, 0.3]))
    brmin = math.ceil(2 * m / r) + 1
    br = brmin + draw(st.integers(0, 5))
    nmin = 4 * (br + 1) * (l + r) + 2 * br + 3
    N = nmin + draw(st.integers(0, 400))
    amps = [[draw(st.floats(0.2, 5)), draw(st.floats(-math.pi, math.pi))] for _ in range(m)]
    if r < l and draw(st.integers(0, 3)) == 0:
        # one mode lives (almost) only at the reference channels: the other channels sit on its nodes
        k = draw(st.integers(0, m - 1))
        for c in range(l):
            if c not in refs:
                s["phi"][k][c] = [0.0, 0.0]
    unc = method == "cov_mm" and draw(st.integers(0, 2)) == 0
    return {"sys": s, "refs": None if allref else refs, "br": br, "brmin": brmin, "N": N + (200 if unc else 0), "amps": amps, "method": method, "unc": unc,
            "layout": draw(st.sampled_from(["C", "C", "F", "colslice", "rowstep", "neg"])), "conj": draw(st.booleans()), "reuse": draw(st.integers(0, 3)) == 0,
            "ordextra": draw(st.sampled_from([0, 0, 0, 1, 2, 4])),  # the user asks for more orders than 2m
            "mpe_rtol": draw(st.sampled_from([1e-3, 1e-3, 0.02, 0.12])), "mpe_off": draw(st.floats(-1, 1)),  # tolerance of the extraction and how far (in units of it) the requests are off
            "decoy": draw(st.booleans()), "selform": draw(st.sampled_from(["list", "list", "tuple", "array", "npfloats"]))}  # another algorithm with much stricter criteria is created (never added) after the judged one


def _kappa_data(Y, refs, br, m):
    """conditioning guard from the truth data: block-Hankel matrices of future (all channels)
    and past (reference channels) outputs, as any SSI variant would build them."""
    N = Y.shape[0]
    p = br
    q = br + 1
    n = N - p - q
    if n < 2 * m:
        return np.inf
    Yf = np.vstack([Y[q + 1 + i : n + q + i].T for i in range(p + 1)])
    Yp = np.vstack([Y[q + i : n + q - 1 + i][:, refs].T for i in range(0, -q, -1)])
    k = 0.0
    for M in (Yf, Yp, Yf @ Yp.T, Yf[: -Y.shape[1]]):
        sv = np.linalg.svd(M, compute_uv=False)
        if len(sv) < 2 * m or sv[2 * m - 1] <= 0:
            return np.inf
        k = max(k, sv[0] / sv[2 * m - 1])
    return k


def judge_setup(case):
    j = J()
    S = modal.Sys(case["sys"])
    m, l = S.m, S.nch
    refs = case["refs"] if case["refs"] is not None else list(range(l))
    br = case["br"]
    method = case["method"]
    j.tag(f"m={m}", "complex" if case["sys"]["complex"] else "real", "refsubset" if len(refs) < l else "allref", method)
    j.nontrivial(m >= 2 or case["sys"]["complex"] or len(refs) < l or br > case["brmin"])
    if _all_equal_shape(S):
        j.skip("excluded_known:C18-mpc-all-equal")
        return j
    if not _observed(S, refs):
        j.skip("mode-unobserved-in-refs")
        return j
    amps = [a * complex(math.cos(p), math.sin(p)) for a, p in case["amps"]]
    Y = S.free_decay(amps, case["N"])
    kappa = _kappa_data(Y, refs, br, m)
    if not kappa <= KAPPA_MAX:
        j.skip("kappa>1e6")
        return j
    tol = CTOL * kappa * (10 if method == "dat" else 1)
    n2 = 2 * m  # the order at which the tables are judged
    ordmax = min(n2 + int(case.get("ordextra", 0)), br * len(refs))
    if ordmax > n2:
        j.tag("ordmax>2m")
    Y = relayout(Y, case.get("layout", "C"))  # the same samples as a Fortran-ordered array, a slice of a wider table, ...
    Y0 = Y.copy()
    ss = SingleSetup(Y, fs=S.fs)
    cls = SSIcov if method == "cov_mm" else SSIdat
    unc = bool(case.get("unc"))
    hc = dict(NEUTRAL_HC, conj=bool(case.get("conj")))  # the exact poles come in conjugate pairs: requiring the conjugate rejects none of them
    kw = dict(name="alg", br=br, ordmax=ordmax, ordmin=0, step=1, hc=hc, sc=dict(NEUTRAL_SC), calc_unc=unc, nb=4)
    j.tag("layout=" + case.get("layout", "C"), "conj" if case.get("conj") else "noconj")
    if unc:
        j.tag("calc_unc")
    if method == "cov_mm":
        kw["method"] = "cov_mm"
    if case["refs"] is not None:
        kw["ref_ind"] = list(refs)
    alg = sut(lambda: cls(**kw))
    if not j.check(not raised(alg), "ctor-raises", lambda: f"{alg!r}"):
        return j
    if case.get("reuse") and not unc:
        # the same algorithm object ran before, in another setup, on a record of the same shape from another system
        s2 = dict(case["sys"], fr=[0.8 * f + 0.004 for f in case["sys"]["fr"]])
        other = SingleSetup(modal.Sys(s2).free_decay(amps[::-1], case["N"]), fs=S.fs)
        j.tag("reused-object")
        if raised(sut(other.add_algorithms, alg)) or raised(sut(other.run_by_name, "alg")):
            j.skip("first-use-of-reused-object-raised")
            return j
    if case.get("decoy"):
        sut(lambda: cls(**dict(kw, name="decoy", hc=dict(conj=True, xi_max=1e-6, mpc_lim=0.999, mpd_lim=1e-6, cov_max=1e-12), sc=dict(err_fn=1e-9, err_xi=1e-9, err_phi=1e-9))))
        j.tag("decoy-algorithm")
    r = sut(ss.add_algorithms, alg)
    r2 = sut(ss.run_by_name, "alg")
    if unc and raised(r2) and r2.type == "LinAlgError":
        # the sensitivity matrices of the uncertainty propagation can be singular for noise-free (exactly rank-deficient)
        # Hankel matrices; uncertainties are C17's subject, the identification itself is judged without them
        j.skip("uncertainty-propagation-singular-on-noise-free-data")
        return j
    if raised(r2) and r2.type == "LinAlgError" and ordmax > n2:
        j.skip("singular-above-the-true-order")  # exact data have rank 2m: orders above it may be exactly singular
        return j
    if not j.check(not raised(r) and not raised(r2), "run-raises", lambda: f"{r!r} {r2!r}"):
        return j
    res = alg.result
    Fn, Xi, Phi, Lam = res.Fn_poles, res.Xi_poles, res.Phi_poles, res.Lambds
    if not j.check(Fn.shape == (ordmax, ordmax + 1), "table-shape", lambda: f"{Fn.shape}"):
        return j
    _judge_column(j, S, Fn[:, n2], Xi[:, n2], Phi[:, n2, :], Lam[:, n2], tol, "table")
    j.check(np.array_equal(Y, Y0), "data-mutated", "setup data modified by the run")
    # extraction at order 2m
    rtol = float(case.get("mpe_rtol", 1e-3))
    # requests off by up to 60 % of the tolerance, but never nearer to a neighbouring mode than to their own
    fs_sorted = np.sort(S.fn)
    gap = np.array([min([abs(f - g) / f for g in fs_sorted if g != f] or [1.0]) for f in S.fn])
    off = float(case.get("mpe_off", 0.0)) * np.minimum(0.6 * rtol, 0.3 * gap)
    j.tag(f"mpe-rtol={rtol:g}")
    sel = [float(f * (1 + o)) for f, o in zip(S.fn, off)]
    form = case.get("selform", "list")  # the same frequencies as a list, a tuple, an array or a list of numpy scalars
    sel = {"list": sel, "tuple": tuple(sel), "array": np.array(sel), "npfloats": [np.float64(v) for v in sel]}[form]
    j.tag("sel_freq:" + form)
    r3 = sut(ss.mpe, "alg", sel_freq=sel, order=n2, rtol=rtol)
    if j.check(not raised(r3), "mpe-raises", lambda: f"{r3!r}"):
        fn, xi, phi = np.asarray(res.Fn), np.asarray(res.Xi), np.asarray(res.Phi)
        if j.check(fn.shape == (m,) and xi.shape == (m,) and phi.shape == (l, m), "mpe-shape", lambda: f"Fn{fn.shape} Xi{xi.shape} Phi{phi.shape} for m={m}, l={l}"):
            for k in range(m):
                j.check(abs(fn[k] - S.fn[k]) / S.fn[k] <= tol, "mpe-fn", lambda: f"mode {k}: {fn[k]!r} vs {S.fn[k]!r}")
                j.check(abs(xi[k] - S.xi[k]) <= tol, "mpe-xi", lambda: f"mode {k}: {xi[k]!r} vs {S.xi[k]!r}")
                em = 1 - max(mac(phi[:, k], S.Phi[:, k]), mac(phi[:, k], np.conj(S.Phi[:, k])))
                j.check(em <= max(tol, 1e-12), "mpe-mac", lambda: f"mode {k}: 1-MAC={em:.3e}")
            j.check(res.order_out == n2 or np.all(np.asarray(res.order_out) == n2), "mpe-order", lambda: f"order_out={res.order_out!r}")
    return j


SUBS = [
    Sub("realisation", judge_realisation, realisation_case(), quick=400, thorough=16000,
        rule="H = O*Gamma exact rank 2m (random similarity, random G); SSI_fast and legacy SSI -> SSI_poles / ac2mp at order 2m give m conjugate pairs equal to the truth"),
    Sub("setup_cov_mm", judge_setup, setup_case("cov_mm"), quick=400, thorough=16000,
        rule="noise-free free decay through SingleSetup + SSIcov(cov_mm): pole tables at order 2m and mpe(order=2m) equal the truth"),
    Sub("setup_dat", judge_setup, setup_case("dat"), quick=400, thorough=16000,
        rule="noise-free free decay through SingleSetup + SSIdat: pole tables at order 2m and mpe(order=2m) equal the truth"),
]
