"""C20 - diagrams show exactly the identified poles at their frequency, order and damping."""
from __future__ import annotations

import matplotlib
import matplotlib.pyplot as plt
import numpy as np
from hypothesis import strategies as st
from matplotlib.collections import PathCollection

from pyoma2.algorithms import FDD, SSIcov, SSIdat, pLSCF
from pyoma2.algorithms.data.result import FDDResult, SSIResult, pLSCFResult
from pyoma2.functions import plot

from .. import tables
from ..core import J, Sub, raised, rng_of, sut

PROPERTY = "C20"
RULE = (
    "pole and label tables up to 12 rows x 60 orders with drawn NaN patterns, hide_poles on/off, drawn frequency limits, with and without covariance "
    "error bars; singular-value arrays with 2..6 values and every admissible number of curves; functions and the classes' plot methods (Agg backend); "
    "oracle = multisets of expected marker positions read back from the Line2D / PathCollection artists; non-trivial = table with stable, unstable and NaN cells"
)
ASSUMPTIONS = [
    "stable markers = the Line2D drawn with marker 'o' in green, unstable markers = the PathCollection of ax.scatter; positions compared exactly (NaN points ignored)",
    "step = 1 through the classes (the only value the SSI pole tables support); the order value is the column index, which is what mpe(order=...) accepts; "
    "plot.stab_plot called directly also gets step 2 and 3: the order axis may then show the column index or index x step (one of the two for stable and unstable markers alike, at every drawing)",
]


def _stable_line(ax):
    out = []
    for ln in ax.lines:
        if ln.get_marker() == "o" and matplotlib.colors.to_rgb(ln.get_color()) == matplotlib.colors.to_rgb("g") and ln.get_linestyle() in ("None", "", " "):
            out.append(ln)
    return out


def _points(x, y):
    x, y = np.asarray(x, dtype=float).ravel(), np.asarray(y, dtype=float).ravel()
    m = np.isfinite(x) & np.isfinite(y)
    return sorted(zip(x[m].tolist(), y[m].tolist()))


def _scatter_points(ax):
    pts = []
    n = 0
    for c in ax.collections:
        if isinstance(c, PathCollection):
            n += 1
            off = np.ma.filled(np.ma.asarray(c.get_offsets(), dtype=float), np.nan)
            if off.size:
                pts += _points(off[:, 0], off[:, 1])
    return sorted(pts), n


def _expected(Fn, Y, Lab, val):
    R, C = Fn.shape
    out = []
    for o in range(C):
        for i in range(R):
            if Lab[i, o] == val and np.isfinite(Fn[i, o]) and np.isfinite(Y[i, o]):
                out.append((float(Fn[i, o]), float(Y[i, o])))
    return sorted(out)


@st.composite
def diagram_case(draw, max_cols=60):
    tc = draw(tables.table_case(max_rows=12, max_cols=max_cols, min_cols=2, with_cov=True))
    if draw(st.integers(0, 5)) == 0:
        tc["rows"] = draw(st.sampled_from([49, 98, 103, 107, 161]))  # tall tables (high orders, many channels)
        tc["cols"] = min(tc["cols"], 12)
    tc["covscale"] = draw(st.sampled_from([1.0, 1.0, 1e3, 1e5]))  # some poles with a standard deviation of the order of the frequency itself
    return {"table": tc, "hide": draw(st.booleans()), "hideform": draw(st.sampled_from(["bool", "bool", "npbool", "int"])), "freqlim": draw(st.one_of(st.none(), st.tuples(st.floats(0, 5), st.floats(6, 30)).map(list))),
            "plab": [0.3, 0.5, 0.7, 0.5, 0.0, 1.0][(draw(st.integers(0, 2**20)) + tc["seed"] // 5) % 6], "which": ["function", "SSIcov", "SSIdat", "pLSCF"][(draw(st.integers(0, 2**20)) + tc["seed"] // 11) % 4],  # balanced across small runs
            "ordmin": draw(st.integers(0, 3))}


def _hide(case):
    """the hide_poles switch as a Python bool, a numpy bool or an integer"""
    return {"bool": bool, "npbool": np.bool_, "int": int}[case.get("hideform", "bool")](case["hide"])


def _labels(case, t):
    rng = rng_of(case["table"]["seed"] + 5)
    return (np.isfinite(t["Fn"]) & (rng.random(t["Fn"].shape) < case["plab"])).astype(int)


def _make_alg(case, t, Lab):
    Fn = t["Fn"]
    w = case["which"]
    if w == "pLSCF":
        alg = pLSCF(name="a", ordmax=Fn.shape[1], ordmin=case["ordmin"])
        alg.result = pLSCFResult(Fn_poles=Fn.copy(), Xi_poles=t["Xi"].copy(), Phi_poles=t["Phi"].copy(), Lab=Lab.copy())
    else:
        cls = SSIcov if w == "SSIcov" else SSIdat
        alg = cls(name="a", br=4, ordmax=Fn.shape[1] - 1, ordmin=case["ordmin"])
        alg.result = SSIResult(Fn_poles=Fn.copy(), Xi_poles=t["Xi"].copy(), Phi_poles=t["Phi"].copy(), Lab=Lab.copy(),
                               Fn_poles_cov=None if t["Fn_cov"] is None else t["Fn_cov"].copy())
    alg._set_data(np.zeros((8, t["Phi"].shape[2])), 50.0)
    return alg


def _tags(j, case, t, Lab):
    Fn = t["Fn"]
    st_, un, nn = bool(((Lab == 1) & np.isfinite(Fn)).any()), bool(((Lab == 0) & np.isfinite(Fn)).any()), bool(np.isnan(Fn).any())
    j.tag(case["which"], "hide" if case["hide"] else "show", "cov" if t["Fn_cov"] is not None else "nocov")
    j.nontrivial(st_ and un and nn)


def judge_stab(case):
    j = J()
    t = tables.build(case["table"])
    Fn = t["Fn"]
    Lab = _labels(case, t)
    _tags(j, case, t, Lab)
    plt.close("all")
    fl = None if case["freqlim"] is None else tuple(case["freqlim"])
    # function path: the documented `step` argument also takes 2 and 3; the order axis may then carry the column index
    # or the model order (index x step) - either is accepted, but it must be the same at every drawing
    step = (1, 1, 2, 3)[(case["table"]["seed"] // 2) % 4] if case["which"] == "function" else 1
    if step != 1:
        j.tag(f"step_{step}")
    if case["table"]["seed"] % 2 == 0:
        other = Fn * 1.37 + 0.11
        sut(plot.stab_plot, other, np.ones_like(Lab), step, (Fn.shape[1] - 1) * step, ordmin=0, freqlim=None, hide_poles=False)
        sut(plot.cluster_plot, other, t["Xi"] * 0.5, np.ones_like(Lab), ordmin=0, freqlim=None, hide_poles=False)
        j.tag("earlier_figure_open")
    if case["which"] == "function":
        out = sut(plot.stab_plot, Fn.copy(), Lab.copy(), step, (Fn.shape[1] - 1) * step, ordmin=case["ordmin"], freqlim=fl, hide_poles=_hide(case), Fn_cov=None if t["Fn_cov"] is None else t["Fn_cov"].copy())
    else:
        alg = _make_alg(case, t, Lab)
        out = sut(alg.plot_stab, freqlim=fl, hide_poles=_hide(case))
    if not j.check(not raised(out), "stab-raises", lambda: f"{out!r}"):
        plt.close("all")
        return j
    fig, ax = out
    order = np.tile(np.arange(Fn.shape[1])[None, :], (Fn.shape[0], 1)).astype(float)
    maps = [1] if step == 1 else [1, step]  # admissible order-axis mappings; narrowed by the stable markers
    lines = _stable_line(ax)
    if j.check(len(lines) == 1, "stab-stable-artist", lambda: f"{len(lines)} green-circle Line2D artists"):
        got = _points(lines[0].get_xdata(), lines[0].get_ydata())
        exp = _expected(Fn, order, Lab, 1)
        if step != 1:
            fits = [m for m in (1, step) if got == _expected(Fn, order * m, Lab, 1)]
            if fits:
                maps = fits
            exp = _expected(Fn, order * maps[0], Lab, 1)
        j.check(got == exp, "stab-stable-markers", lambda: f"stable markers differ: {len(got)} drawn, {len(exp)} expected; first drawn {got[:3]}, first expected {exp[:3]}")
    pts, ncol = _scatter_points(ax)
    if case["hide"]:
        j.check(pts == [], "stab-hidden-unstable", lambda: f"{len(pts)} unstable markers drawn although hidden")
    else:
        exp = _expected(Fn, order * maps[0], Lab, 0)
        for m in maps[1:]:
            if pts == _expected(Fn, order * m, Lab, 0):
                exp = pts
        j.check(pts == exp, "stab-unstable-markers", lambda: f"unstable markers differ: {len(pts)} drawn, {len(exp)} expected; first drawn {pts[:3]}, first expected {exp[:3]}")
    if fl is not None:
        j.check(tuple(np.round(ax.get_xlim(), 9)) == tuple(np.round(fl, 9)), "stab-freqlim", lambda: f"xlim {ax.get_xlim()} vs {fl}")
    plt.close("all")
    return j


def judge_cluster(case):
    j = J()
    t = tables.build(case["table"])
    Fn, Xi = t["Fn"], t["Xi"]
    Lab = _labels(case, t)
    _tags(j, case, t, Lab)
    plt.close("all")
    fl = None if case["freqlim"] is None else tuple(case["freqlim"])
    if case["table"]["seed"] % 2 == 0:
        # an earlier diagram of another table is still open: it must not leak into this one
        other = Fn * 1.37 + 0.11
        sut(plot.cluster_plot, other, Xi * 0.5, np.ones_like(Lab), ordmin=0, freqlim=None, hide_poles=False)
        sut(plot.stab_plot, other, np.ones_like(Lab), 1, Fn.shape[1] - 1, ordmin=0, freqlim=None, hide_poles=False)
        j.tag("earlier_figure_open")
    if case["which"] == "function":
        out = sut(plot.cluster_plot, Fn.copy(), Xi.copy(), Lab.copy(), ordmin=case["ordmin"], freqlim=fl, hide_poles=_hide(case))
    else:
        alg = _make_alg(case, t, Lab)
        out = sut(alg.plot_cluster, freqlim=fl, hide_poles=_hide(case))
    if not j.check(not raised(out), "cluster-raises", lambda: f"{case['which']}.plot_cluster: {out!r}"):
        plt.close("all")
        return j
    fig, ax = out
    lines = _stable_line(ax)
    if j.check(len(lines) == 1, "cluster-stable-artist", lambda: f"{len(lines)} green-circle Line2D artists"):
        got = _points(lines[0].get_xdata(), lines[0].get_ydata())
        exp = _expected(Fn, Xi, Lab, 1)
        j.check(got == exp, "cluster-stable-markers", lambda: f"stable markers differ: {len(got)} drawn, {len(exp)} expected; first drawn {got[:3]}, expected {exp[:3]}")
    pts, _ = _scatter_points(ax)
    if case["hide"]:
        j.check(pts == [], "cluster-hidden-unstable", lambda: f"{len(pts)} unstable markers drawn although hidden")
    else:
        exp = _expected(Fn, Xi, Lab, 0)
        j.check(pts == exp, "cluster-unstable-markers", lambda: f"unstable markers differ: {len(pts)} drawn, {len(exp)} expected")
    plt.close("all")
    return j


@st.composite
def cmif_case(draw):
    n = draw(st.integers(2, 6))
    return {"n": n, "nf": draw(st.integers(8, 300)), "nSv": draw(st.one_of(st.just("all"), st.integers(1, n - 1))), "fs": draw(st.sampled_from([1.0, 100.0, 37.0])),
            "seed": draw(st.integers(0, 2**32 - 1)), "freqlim": draw(st.one_of(st.none(), st.sampled_from([[0.1, 0.4], [0.25, 0.45], [0.0, 0.1], [0.3, 0.5]]))), "via_class": draw(st.booleans()),
            "deadline": draw(st.integers(0, 4)) == 0,
            "range": draw(st.sampled_from([0, 0, 8, 16, 30])), "level": draw(st.sampled_from([1.0, 1.0, 1e-12, 1e9]))}  # decades between consecutive singular values; overall level


def judge_cmif(case):
    j = J()
    rng = rng_of(case["seed"])
    n, nf = case["n"], case["nf"]
    freq = np.arange(nf) * case["fs"] / 2 / (nf - 1)
    sv = np.sort(rng.uniform(0.01, 10, size=(n, nf)) * (1 + 5 * np.exp(-((np.arange(nf) - nf / 3) ** 2) / 20))[None, :], axis=0)[::-1]
    if case.get("range"):
        # a clean record analysed with many channels: each further singular value some decades below the previous one
        sv = sv * (10.0 ** (-float(case["range"]) * np.arange(n)))[:, None]
        j.tag("wide-dynamic-range")
    sv = sv * case.get("level", 1.0)
    if case.get("deadline"):
        sv[-1, :: max(2, nf // 5)] = 0.0  # a dead channel: the last singular value is exactly zero at some lines (drawn at -inf dB)
        j.tag("exact-zero-singular-value")
    S_val = np.zeros((n, n, nf))
    for k in range(n):
        S_val[k, k, :] = sv[k]
    plt.close("all")
    fl = None if case["freqlim"] is None else tuple(f * case["fs"] for f in case["freqlim"])
    nSv = case["nSv"]
    j.tag("class" if case["via_class"] else "function", f"nSv={'all' if nSv == 'all' else 'int'}")
    j.nontrivial(True)
    if case["via_class"]:
        alg = FDD(name="a", nxseg=2 * (nf - 1))
        alg._set_data(np.zeros((8, n)), case["fs"])
        alg.result = FDDResult(freq=freq.copy(), Sy=np.zeros((n, n, nf)), S_val=S_val.copy(), S_vec=np.zeros((n, n, nf)))
        out = sut(alg.plot_CMIF, freqlim=fl, nSv=nSv)
    else:
        out = sut(plot.CMIF_plot, S_val.copy(), freq.copy(), freqlim=fl, nSv=nSv)
    if not j.check(not raised(out), "cmif-raises", lambda: f"{out!r}"):
        plt.close("all")
        return j
    fig, ax = out
    want = n if nSv == "all" else int(nSv)
    lines = [ln for ln in ax.lines if len(ln.get_xdata()) == nf]
    if j.check(len(lines) == want, "cmif-count", lambda: f"{len(lines)} curves over the whole grid, expected {want}"):
        ref = np.max(S_val[0, 0, :])
        exp = [10 * np.log10(S_val[k, k, :] / ref) for k in range(want)]
        unmatched = list(range(want))
        for ln in lines:
            j.check(np.array_equal(np.asarray(ln.get_xdata(), dtype=float), freq), "cmif-xdata", "a curve is not drawn over the frequency grid")
            y = np.asarray(ln.get_ydata(), dtype=float)
            hit = [k for k in unmatched if np.allclose(y, exp[k], rtol=1e-12, atol=1e-9)]
            if j.check(bool(hit), "cmif-ydata", lambda: f"a curve is not 10*log10(S_val[k,k,:]/max S_val[0,0,:]) for any remaining k; first values {y[:3].tolist()} vs k=0: {exp[0][:3].tolist()}"):
                unmatched.remove(hit[0])
    plt.close("all")
    return j


SUBS = [
    Sub("stab", judge_stab, diagram_case(), quick=120, thorough=9000,
        rule="plot.stab_plot and SSIcov/SSIdat/pLSCF.plot_stab: stable markers = {(Fn, column index): Lab=1}, unstable markers (when shown) = the other finite poles, none for NaN cells"),
    Sub("cluster", judge_cluster, diagram_case(), quick=120, thorough=9000,
        rule="plot.cluster_plot and the classes' plot_cluster: the same poles at (Fn, Xi)"),
    Sub("cmif", judge_cmif, cmif_case(), quick=100, thorough=9000,
        rule="plot.CMIF_plot / FDD.plot_CMIF: nSv curves over the whole grid, y = 10 log10(S_val[k,k,:]/max S_val[0,0,:]), for 'all' and every admissible integer"),
]
