"""C08 - identification is covariant under gain, channel order and time unit; shapes are unity-normalised.

Metamorphic testing: the same data set is analysed after a known transformation and the whole result
tables are compared.  A rounding-sensitivity probe (data * (1 + 1e-13*eta)) measures how far two
mathematically equal computations may legitimately differ on this data set."""
from __future__ import annotations

import math

import numpy as np
from hypothesis import strategies as st
from scipy.optimize import linear_sum_assignment

from pyoma2.algorithms import EFDD, EFDD_MS, FDD, FDD_MS, FSDD, SSIcov, SSIcov_MS, SSIdat, SSIdat_MS, pLSCF, pLSCF_MS
from pyoma2.setup import MultiSetup_PreGER, SingleSetup

from .. import modal
from ..core import J, Sub, mac, raised, rng_of, sut

PROPERTY = "C08"
RULE = (
    "noisy random-response / free-decay data (2..5 channels, 1500..3000 samples) of drawn modal systems through every algorithm class "
    "(FDD, EFDD, FSDD, SSIcov[cov_mm, cov_R], SSIdat, pLSCF[per, cor] and the _MS variants) with drawn nxseg / br / ordmax / reference subsets; "
    "transformations: gain in +-[1e-6,1e6], channel permutation (reference indices mapped), orthogonal mixing, sampling frequency k*fs with k in [0.01,100]; "
    "whole pole tables compared as multisets per order; non-trivial = transformation not the identity and >= 3 finite poles (or >= 1 extracted mode)"
)
ASSUMPTIONS = [
    "tolerance = max(floor, 100 * discrepancy of a run on data*(1+1e-13*eta)) per quantity; floors (relative frequency, damping): 1e-9 FDD family, 1e-6 SSI, 1e-4 pLSCF (normal equations), 1e-8 for 1-MAC; calibrated at ~100x the worst discrepancy between equivalent computations on the unchanged tree",
    "hard criteria neutral (conj off, xi_max 1, mpc_lim 0, mpd_lim pi/2); stability labels are not compared (threshold decisions)",
    "a differing number of retained poles is judged only if the rounding probe reproduces the base run's count",
    "mode shapes of conjugate poles are compared up to conjugation when the tables do not carry the eigenvalues",
]

NEUTRAL = dict(conj=False, xi_max=1.0, mpc_lim=0.0, mpd_lim=math.pi / 2 + 1e-9, cov_max=1e300)
CLASSES = ["FDD", "EFDD", "FSDD", "SSIcov_mm", "SSIcov_R", "SSIdat", "pLSCF_per", "pLSCF_cor", "FDD_MS", "EFDD_MS", "SSIcov_MS", "SSIdat_MS", "pLSCF_MS"]


# ---------------------------------------------------------------------------
# running one algorithm
# ---------------------------------------------------------------------------
def _run(ck, data, fs, par, refs, sel, DFk=1.0, reuse=None):
    """-> dict of tables or Raised; reuse = an algorithm object that already ran on another setup"""
    ms = ck.endswith("_MS")
    if ms:
        datasets, refl = data
        setup = MultiSetup_PreGER(fs=fs, ref_ind=[list(r) for r in refl], datasets=[d.copy() for d in datasets])
    else:
        setup = SingleSetup(data.copy(), fs=fs)
    base = ck.split("_")[0]
    if base in ("FDD", "EFDD", "FSDD"):
        cls = {"FDD": FDD_MS if ms else FDD, "EFDD": EFDD_MS if ms else EFDD, "FSDD": FSDD}[base]
        alg = cls(name="a", nxseg=par["nxseg"], method_SD=par["method_SD"], pov=par["pov"])
    elif base == "pLSCF":
        cls = pLSCF_MS if ms else pLSCF
        m = par["method_SD"] if ms else ck.split("_")[1]
        alg = cls(name="a", ordmax=par["ordmax"], nxseg=par["nxseg"], method_SD=m, pov=par["pov"], hc={k: v for k, v in NEUTRAL.items() if k != "cov_max"})
    else:
        cls = {"SSIcov": SSIcov_MS if ms else SSIcov, "SSIdat": SSIdat_MS if ms else SSIdat}[base]
        kw = dict(name="a", br=par["br"], ordmax=par["ordmax"], hc=dict(NEUTRAL))
        if ck == "SSIcov_R":
            kw["method"] = "cov_R"
        if ck in ("SSIcov_mm", "SSIcov_MS"):
            kw["method"] = "cov_mm"
        if refs is not None and not ms:
            kw["ref_ind"] = list(refs)
        alg = cls(**kw)
    if reuse is not None:
        alg = reuse
    setup.add_algorithms(alg)
    r = sut(setup.run_by_name, "a")
    if raised(r):
        return r
    res = alg.result
    out = {"_alg": alg}
    df = fs / par["nxseg"]
    if base in ("FDD", "EFDD", "FSDD"):
        out["freq"] = np.asarray(res.freq)
        if base == "FDD":
            r = sut(setup.mpe, "a", sel_freq=list(sel), DF=par["DFl"] * df)
        else:
            r = sut(setup.mpe, "a", sel_freq=list(sel), DF1=par["DFl"] * df, DF2=4 * par["DFl"] * df, npmax=par.get("npmax", 20), cm=par.get("cm", 1))
        if raised(r):
            return r
        out["Fn"] = np.asarray(res.Fn, dtype=float).reshape(-1)
        out["Phi"] = np.asarray(res.Phi)
        if base != "FDD":
            out["Xi"] = np.asarray(res.Xi, dtype=float).reshape(-1)
    else:
        out["Fn_poles"] = np.asarray(res.Fn_poles, dtype=float)
        out["Xi_poles"] = np.asarray(res.Xi_poles, dtype=float)
        out["Phi_poles"] = np.asarray(res.Phi_poles)
        if getattr(res, "Lambds", None) is not None:
            out["Lambds"] = np.asarray(res.Lambds)
    return out


# ---------------------------------------------------------------------------
# table comparison
# ---------------------------------------------------------------------------
def _cmp_tables(T0, T1, kf, rowmap=None, Q=None):
    """discrepancy between base tables T0 and transformed tables T1 (frequencies expected * kf, shape rows
    mapped by rowmap: T1 row i corresponds to T0 row rowmap[i], or T1 shape = Q @ T0 shape, renormalised).
    -> dict(fn=..., xi=..., mac=..., norm=..., count_mismatch=bool, npoles=int)"""
    d = {"fn": 0.0, "xi": 0.0, "mac": 0.0, "norm": 0.0, "count_mismatch": False, "npoles": 0}

    def shape_expect(p):
        if Q is not None:
            p = Q @ p
        elif rowmap is not None:
            p = p[rowmap]
        return p

    def shape_err(p0, p1, allow_conj):
        e = shape_expect(p0)
        m = mac(e, p1)
        if allow_conj:
            m = max(m, mac(np.conj(e), p1))
        return 1 - m

    def norm_err(p):
        if not np.all(np.isfinite(p)):
            return 0.0
        return max(abs(np.max(np.abs(p)) - 1), float(np.min(np.abs(p - 1))))

    if "Fn_poles" in T0:
        F0, X0, P0 = T0["Fn_poles"], T0["Xi_poles"], T0["Phi_poles"]
        F1, X1, P1 = T1["Fn_poles"], T1["Xi_poles"], T1["Phi_poles"]
        if F0.shape != F1.shape:
            d["count_mismatch"] = True
            return d
        have_l = "Lambds" in T0 and "Lambds" in T1
        for o in range(F0.shape[1]):
            i0 = np.nonzero(np.isfinite(F0[:, o]))[0]
            i1 = np.nonzero(np.isfinite(F1[:, o]))[0]
            if len(i0) != len(i1):
                d["count_mismatch"] = True
                continue
            if len(i0) == 0:
                continue
            if have_l:
                a = T0["Lambds"][i0, o] * kf
                b = T1["Lambds"][i1, o]
                cost = np.abs(a[:, None] - b[None, :]) / np.maximum(np.abs(a)[:, None], 1e-300)
            else:
                cost = np.abs(F0[i0, o][:, None] * kf - F1[i1, o][None, :]) / np.maximum(F0[i0, o][:, None] * kf, 1e-300) + np.abs(X0[i0, o][:, None] - X1[i1, o][None, :])
            ra, rb = linear_sum_assignment(cost)
            for a_, b_ in zip(ra, rb):
                p, q = i0[a_], i1[b_]
                d["npoles"] += 1
                d["fn"] = max(d["fn"], abs(F0[p, o] * kf - F1[q, o]) / max(F0[p, o] * kf, 1e-300))
                d["xi"] = max(d["xi"], abs(X0[p, o] - X1[q, o]))
                d["mac"] = max(d["mac"], shape_err(P0[p, o], P1[q, o], not have_l))
                d["norm"] = max(d["norm"], norm_err(P1[q, o]))
    else:
        F0, F1 = T0["Fn"], T1["Fn"]
        if F0.shape != F1.shape:
            d["count_mismatch"] = True
            return d
        if "freq" in T0:
            g0, g1 = T0["freq"], T1["freq"]
            if g0.shape != g1.shape:
                d["count_mismatch"] = True
                return d
            d["fn"] = max(d["fn"], float(np.max(np.abs(g0 * kf - g1)) / max(g0[-1] * kf, 1e-300)))
        for q in range(len(F0)):
            d["npoles"] += 1
            d["fn"] = max(d["fn"], abs(F0[q] * kf - F1[q]) / max(F0[q] * kf, 1e-300))
            if "Xi" in T0:
                d["xi"] = max(d["xi"], abs(T0["Xi"][q] - T1["Xi"][q]))
            d["mac"] = max(d["mac"], shape_err(T0["Phi"][:, q], T1["Phi"][:, q], False))
            d["norm"] = max(d["norm"], norm_err(T1["Phi"][:, q]))
    return d


# ---------------------------------------------------------------------------
# cases
# ---------------------------------------------------------------------------
@st.composite
def meta_case(draw, ck):
    ms = ck.endswith("_MS")
    nch = draw(st.integers(3, 5)) if ms else draw(st.integers(2, 5))
    s = draw(modal.system(1, 3, nch, nch, xi_lo=0.005, xi_hi=0.04, fr_lo=0.05, fr_hi=0.4))
    c = {"ck": ck, "sys": s, "seed": draw(st.integers(0, 2**32 - 1)), "N": draw(st.integers(1500, 3000)), "kind": draw(st.sampled_from(["random", "decay+noise"])),
         "nxseg": draw(st.sampled_from([128, 256, 512])), "method_SD": draw(st.sampled_from(["per", "cor"])), "pov": draw(st.sampled_from([0.5, 0.25, 0.0])),
         "br": draw(st.integers(5, 12)), "ordmax": draw(st.integers(4, 16)), "DFl": draw(st.integers(2, 6)),
         "gain": draw(st.sampled_from([1.0, -1.0])) * draw(st.one_of(st.sampled_from([2.0**-20, 2.0**10, 1e-6, 1e6]), st.floats(-6, 6).map(lambda e: 10.0**e))),
         "k": draw(st.one_of(st.sampled_from([0.01, 100.0, 0.5, 3.0]), st.floats(-2, 2).map(lambda e: 10.0**e))),
         "perm_seed": draw(st.integers(0, 2**16)), "refsub": draw(st.booleans())}
    if ck.startswith("SSI") and draw(st.integers(0, 5)) == 0:
        # a stabilisation diagram up to a high order, as used on real structures
        c["br"] = draw(st.integers(25, 35))
        c["ordmax"] = draw(st.integers(46, 70))
    if ck.startswith("pLSCF"):
        c["ordmax"] = draw(st.integers(2, 8))
    if ck.split("_")[0] in ("EFDD", "FSDD"):
        # the damping fit needs npmax correlation extrema inside half a segment: long segments, few extrema, no very low modes
        c["sys"] = draw(modal.system(1, 3, nch, nch, xi_lo=0.005, xi_hi=0.04, fr_lo=0.12, fr_hi=0.4))
        c["nxseg"] = draw(st.sampled_from([512, 1024]))
        c["N"] = draw(st.integers(4000, 6000))
        c["npmax"] = draw(st.sampled_from([6, 10, 20]))
        c["cm"] = draw(st.sampled_from([1, 1, 2]))  # number of closely spaced modes the SDOF bell may combine
    if ms:
        # the FDD pick needs a second singular value: at least two reference channels
        c["nref"] = 2 if ck.split("_")[0] in ("FDD", "EFDD") else draw(st.integers(1, 2))
    return c


def _build(case):
    S = modal.Sys(case["sys"])
    ck = case["ck"]
    ms = ck.endswith("_MS")
    rng = rng_of(case["seed"])

    def rec(seed, channels=None):
        Y = modal.random_response(S, case["N"], seed, noise=0.05, channels=channels)
        if case["kind"] == "decay+noise":
            amps = rng.uniform(0.5, 2, size=S.m) * np.exp(1j * rng.uniform(-3, 3, size=S.m))
            Y = Y * 0.2 + S.free_decay(amps, case["N"], channels=channels) * np.std(Y) * 3
        return Y

    if not ms:
        data = rec(case["seed"])
        refs = None
        if ck.startswith("SSI") and case["refsub"] and S.nch >= 3:
            refs = [S.nch - 1, 0]
        return S, data, refs
    k = case["nref"]
    rov = list(range(k, S.nch))
    h = max(1, len(rov) // 2)
    chans = [list(range(k)) + rov[:h], (rov[h:] or rov[:1]) + list(range(k))[::-1]]
    refl = [list(range(k)), [len(chans[1]) - 1 - q for q in range(k)]]
    datasets = [rec(case["seed"] + i, channels=c) for i, c in enumerate(chans)]
    return S, (datasets, refl, chans), None


def judge_meta(case):
    j = J()
    ck = case["ck"]
    ms = ck.endswith("_MS")
    S, data, refs = _build(case)
    par = {k: case[k] for k in ("nxseg", "method_SD", "pov", "br", "ordmax", "DFl")}
    par["npmax"] = case.get("npmax", 20)
    par["cm"] = case.get("cm", 1)
    r = len(refs) if refs is not None else (case.get("nref") if ms else S.nch)
    par["ordmax"] = max(2, min(par["ordmax"], par["br"] * r)) if ck.startswith("SSI") else par["ordmax"]
    fs = S.fs
    sel = sorted(float(f) for f in S.fn)
    j.tag(ck)
    if par["ordmax"] >= 40:
        j.tag("high-order")
    if ms:
        datasets, refl, chans = data
        d0 = (datasets, refl)
    else:
        d0 = data
    T0 = _run(ck, d0, fs, par, refs, sel)
    if raised(T0):
        if ck.split("_")[0] in ("EFDD", "FSDD") and T0.where.startswith("fdd.py"):
            j.skip("efdd-fit-failed-on-base")  # the damping fit needs enough correlation extrema (C07's domain)
            return j
        j.check(False, "base-run-raises", f"{T0!r}")
        return j
    rng = rng_of(case["perm_seed"])

    def jit(a):
        return a * (1 + 1e-13 * rng.uniform(-1, 1, size=a.shape))

    dj = (([jit(d) for d in datasets], refl) if ms else jit(data))
    Tj = _run(ck, dj, fs, par, refs, sel)
    if raised(Tj):
        j.skip("probe-run-raises")
        return j
    pj = _cmp_tables(T0, Tj, 1.0)
    if pj["count_mismatch"]:
        j.skip("rounding-probe-changes-pole-count")
        return j
    # floors calibrated on the unchanged tree (worst observed discrepancy of equivalent computations: FDD family 1e-15,
    # SSI 1.5e-8, pLSCF 1.5e-6 on ill-conditioned spurious poles; normal equations square the conditioning); ~100x margin
    fam = ck.split("_")[0]
    floor = 1e-4 if fam == "pLSCF" else 1e-6 if fam.startswith("SSI") else 1e-9
    tol = {q: max(floor, 100 * pj[q]) for q in ("fn", "xi")}
    tol["mac"] = max(1e-8, 100 * pj["mac"])
    j.nontrivial(pj["npoles"] >= (1 if "Fn" in T0 else 3))
    j.check(pj["norm"] <= 1e-9 and _cmp_tables(T0, T0, 1.0)["norm"] <= 1e-9, "normalisation", lambda: "a reported mode shape is not normalised to a unit largest component")

    def judge(name, T1, kf=1.0, rowmap=None, Q=None):
        if raised(T1):
            if ck.split("_")[0] in ("EFDD", "FSDD") and T1.where.startswith("fdd.py"):
                j.skip(f"{name}:efdd-fit-failed")
                return
            j.check(False, f"{name}-raises", f"{T1!r}")
            return
        d = _cmp_tables(T0, T1, kf, rowmap=rowmap, Q=Q)
        if d["count_mismatch"]:
            j.check(False, f"{name}-pole-count", f"{name}: the transformed run retains a different number of poles at some order")
            return
        import os
        if os.environ.get("VP_C08_CALIB"):
            for q in ("fn", "xi", "mac"):
                rt = d[q] / tol[q]
                j.tag(f"{name}:{q}:" + ("<=0.01" if rt <= 0.01 else "<=0.1" if rt <= 0.1 else "<=1" if rt <= 1 else "<=10" if rt <= 10 else ">10"))
        j.check(d["fn"] <= tol["fn"], f"{name}-fn", lambda: f"{name}: frequencies differ by {d['fn']:.3e} (relative), tolerance {tol['fn']:.3e} [probe {pj['fn']:.3e}]")
        j.check(d["xi"] <= tol["xi"], f"{name}-xi", lambda: f"{name}: damping ratios differ by {d['xi']:.3e}, tolerance {tol['xi']:.3e} [probe {pj['xi']:.3e}]")
        j.check(d["mac"] <= tol["mac"], f"{name}-shape", lambda: f"{name}: mode shapes differ, 1-MAC = {d['mac']:.3e}, tolerance {tol['mac']:.3e} [probe {pj['mac']:.3e}]")
        j.check(d["norm"] <= 1e-9, f"{name}-normalisation", lambda: f"{name}: a mode shape is not unity-normalised (deviation {d['norm']:.3e})")

    g = case["gain"]
    kk = case["k"]
    if ms:
        judge("gain", _run(ck, ([d * g for d in datasets], refl), fs, par, refs, sel))
        judge("time-unit", _run(ck, (datasets, refl), fs * kk, par, refs, [f * kk for f in sel]), kf=kk)
        judge("time-unit-reused-object", _run(ck, (datasets, refl), fs * kk, par, refs, [f * kk for f in sel], reuse=T0["_alg"]), kf=kk)
        # permutation inside every dataset, references mapped; expected row map over [refs; roving per setup]
        nd, nr, rows0, rows1 = [], [], [], []
        kref = len(refl[0])
        for i, (d, rl, ch) in enumerate(zip(datasets, refl, chans)):
            perm = rng.permutation(d.shape[1])
            nd.append(d[:, perm])
            inv = np.argsort(perm)
            nr.append([int(inv[c]) for c in rl])
            rov0 = [c for c in range(d.shape[1]) if c not in rl]
            rov1 = [c for c in range(d.shape[1]) if c not in nr[-1]]
            rows0.append([(i, c) for c in rov0])
            rows1.append([(i, int(perm[c])) for c in rov1])
        flat0 = [("ref", q) for q in range(kref)] + [x for r_ in rows0 for x in r_]
        flat1 = [("ref", q) for q in range(kref)] + [x for r_ in rows1 for x in r_]
        rowmap = [flat0.index(x) for x in flat1]
        judge("permutation", _run(ck, (nd, nr), fs, par, refs, sel), rowmap=rowmap)
        return j
    judge("gain", _run(ck, data * g, fs, par, refs, sel))
    judge("time-unit", _run(ck, data, fs * kk, par, refs, [f * kk for f in sel]), kf=kk)
    n = data.shape[1]
    perm = rng.permutation(n)
    inv = np.argsort(perm)
    refs_p = None if refs is None else [int(inv[c]) for c in refs]
    judge("permutation", _run(ck, data[:, perm], fs, par, refs_p, sel), rowmap=list(perm))
    # orthogonal mixing: block-diagonal over reference / non-reference channels when a reference subset is used
    Q = np.eye(n)
    if refs is None:
        Q = modal.random_orthogonal(n, case["perm_seed"])
    else:
        rest = [c for c in range(n) if c not in refs]
        for grp in (list(refs), rest):
            if len(grp) >= 2:
                Qg = modal.random_orthogonal(len(grp), case["perm_seed"] + len(grp))
                Q[np.ix_(grp, grp)] = Qg
    judge("mixing", _run(ck, data @ Q.T, fs, par, refs, sel), Q=Q)
    # last (it replaces the base object's result): the algorithm object of the base run attached to a setup declaring k*fs
    judge("time-unit-reused-object", _run(ck, data, fs * kk, par, refs, [f * kk for f in sel], reuse=T0["_alg"]), kf=kk)
    return j


def _mk(ck):
    heavy = ck.startswith("pLSCF") or ck.startswith("EFDD") or ck.startswith("FSDD")
    return Sub("meta_" + ck, judge_meta, meta_case(ck), quick=16 if heavy else 24, thorough=400 if heavy else 800, shards_quick=4,
               rule=f"{ck}: base run vs gain / time-unit / permutation / orthogonal-mixing runs, whole result tables")


SUBS = [_mk(c) for c in CLASSES]
