#!/usr/bin/env python3
"""Evaluate seeded changes in their own scratch worktrees, in parallel (development aid).

  tools_seed6.py <round-prefix> <ID> [<ID> ...]
for every ID: /tmp/wt_<ID>/seed_{A,B}/ (patch.diff, demo.py, notes.txt) -> seeded/<prefix>_<ID>_{A,B}/
checks: demo passes on the clean worktree, patch applies, demo fails with it, baseline tests still pass,
then ./check <ID> quick with VERIF_REPO_SRC pointing at the patched worktree.
"""
import json, os, shutil, subprocess, sys, time
from concurrent.futures import ThreadPoolExecutor

HERE = os.path.dirname(os.path.abspath(__file__))
TESTS = "tests/unit tests/integration/setup/test_base_setup.py tests/integration/setup/test_single_setup.py"


def sh(cmd, cwd=None, env=None, timeout=3000):
    p = subprocess.run(cmd, shell=True, cwd=cwd, env=env, capture_output=True, text=True, timeout=timeout)
    return p.returncode, p.stdout + p.stderr


def one(prefix, pid):
    wt = f"/tmp/wt_{pid}"
    env = dict(os.environ, TQDM_DISABLE="1", PYOMA_LOG_LEVEL="CRITICAL", MPLBACKEND="Agg", PYTHONPATH=f"{wt}/src", PYTHONDONTWRITEBYTECODE="1")
    out = []
    for x in "AB":
        src = f"{wt}/seed_{x}"
        if not os.path.exists(f"{src}/patch.diff"):
            continue
        name = f"{prefix}_{pid}_{x}"
        dst = os.path.join(HERE, "seeded", name)
        os.makedirs(dst, exist_ok=True)
        for f in ("patch.diff", "demo.py", "notes.txt"):
            if os.path.exists(f"{src}/{f}"):
                shutil.copy(f"{src}/{f}", f"{dst}/{f}")
        sh(f"git -C {wt} checkout -- src")
        res = {"where": f"scratch worktree {wt} of /repo HEAD; checks run with VERIF_REPO_SRC={wt}/src"}
        rc, o = sh(f"/venv/bin/python {dst}/demo.py", cwd=dst, env=env); res["demo_clean_exit"] = rc
        rc, o = sh(f"git -C {wt} apply {dst}/patch.diff")
        if rc:
            res["apply_error"] = o[-300:]
        else:
            rc, o = sh(f"/venv/bin/python {dst}/demo.py", cwd=dst, env=env)
            res["demo_mutated_exit"] = rc; res["demo_mutated_tail"] = o.strip().splitlines()[-2:]
            rc, o = sh(f"/venv/bin/python -m pytest -q -p no:cacheprovider {TESTS}", cwd=wt, env=env)
            res["tests_tail"] = o.strip().splitlines()[-1:]
            t0 = time.time()
            rc, o = sh(f"./check {pid} quick", cwd=os.environ.get("SEED6_CHECK_DIR", HERE), env=dict(os.environ, VERIF_REPO_SRC=f"{wt}/src"))
            lines = [l for l in o.splitlines() if l.startswith("VIOLATION") or "[" in l and l.startswith("  " + pid)]
            res["quick"] = {"exit": rc, "wall_s": round(time.time() - t0, 1), "lines": lines[:12]}
            sh(f"git -C {wt} checkout -- src")
        notes = open(f"{dst}/notes.txt").read().strip() if os.path.exists(f"{dst}/notes.txt") else ""
        meta = {"property": pid, "name": name, "needs_to_manifest": notes, "origin": "independent sub-agent given only the property text and a scratch worktree",
                "ran": res, "tests": TESTS, "detected_by": "quick" if res.get("quick", {}).get("exit") == 1 else "MISSED"}
        json.dump(meta, open(f"{dst}/meta.json", "w"), indent=1)
        out.append(f"{name}: clean={res.get('demo_clean_exit')} mut={res.get('demo_mutated_exit')} tests={res.get('tests_tail')} quick={res.get('quick', {}).get('exit')} {res.get('quick', {}).get('lines', [])[:2]} {res.get('apply_error', '')}")
    return out


if __name__ == "__main__":
    prefix, ids = sys.argv[1], sys.argv[2:]
    with ThreadPoolExecutor(len(ids)) as ex:
        for r in ex.map(lambda i: one(prefix, i), ids):
            for l in r:
                print(l, flush=True)
