#!/bin/bash
# development aid: run every registered check at several seeds / a tier and list anything that is not quiet
# usage: tools_sweep.sh <tier> <seed> [<seed> ...]
cd "$(dirname "$0")"
tier=$1; shift
for s in "$@"; do
  for id in $(python3 -c "import json;print(' '.join(c['property_id'] for c in json.load(open('MANIFEST.json'))['checks']))"); do
    t0=$(date +%s)
    out=$(VERIF_SEED=$s ./check $id $tier 2>&1); rc=$?
    t1=$(date +%s)
    echo "seed=$s $id rc=$rc $((t1-t0))s $(echo "$out" | grep -c VIOLATION) violations"
    if [ $rc -ne 0 ]; then echo "$out" | grep -E "VIOLATION|HARNESS|\[" | head -6; fi
  done
done
