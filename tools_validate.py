#!/usr/bin/env python3
"""Validate MANIFEST.json and evidence/*.json against the schemas in /root/.vp (development aid)."""
import glob, json, sys
import jsonschema
ok = True
m = json.load(open("MANIFEST.json"))
try:
    jsonschema.validate(m, json.load(open("/root/.vp/MANIFEST.schema.json")))
    print("MANIFEST ok:", len(m["checks"]), "checks,", len(m.get("not_applicable", [])), "not applicable")
except Exception as e:
    ok = False; print("MANIFEST INVALID", e)
es = json.load(open("/root/.vp/EVIDENCE.schema.json"))
for f in sorted(glob.glob("evidence/*.json")):
    try:
        jsonschema.validate(json.load(open(f)), es)
    except Exception as e:
        ok = False; print(f, "INVALID", str(e)[:300])
ids = {c["property_id"] for c in m["checks"]} | {c["property_id"] for c in m.get("not_applicable", [])}
want = {json.loads(l)["id"] for l in open("properties.jsonl")}
if ids != want:
    ok = False; print("manifest ids mismatch", sorted(want - ids), sorted(ids - want))
sys.exit(0 if ok else 1)
