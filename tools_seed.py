#!/usr/bin/env python3
"""Evaluate a seeded change (development aid, not a registered check).

  tools_seed.py import <seed_dir> <ID> <name> [--tests "<pytest paths>"]
      verifies: demo passes on clean /repo, patch applies, demo fails with it, listed tests still pass;
      runs ./check <ID> quick (and thorough if quick misses) with the patch applied; reverts /repo;
      stores patch.diff, demo.py, notes, meta.json under seeded/<name>/
  tools_seed.py rerun [name ...]
      re-applies every stored seed (or the named ones) and re-runs its property's quick check
"""
import json
import os
import shutil
import subprocess
import sys
import time

HERE = os.path.dirname(os.path.abspath(__file__))
ENV = dict(os.environ, TQDM_DISABLE="1", PYOMA_LOG_LEVEL="CRITICAL", MPLBACKEND="Agg", PYTHONPATH="/repo/src", PYTHONDONTWRITEBYTECODE="1")


def sh(cmd, cwd=None, env=None, timeout=3600):
    p = subprocess.run(cmd, shell=True, cwd=cwd, env=env or ENV, capture_output=True, text=True, timeout=timeout)
    return p.returncode, (p.stdout + p.stderr)


def repo_clean():
    rc, out = sh("git -C /repo status --porcelain --untracked-files=no")
    return out.strip() == ""


def revert():
    sh("git -C /repo checkout -- .")


def run_check(pid, tier):
    t0 = time.time()
    rc, out = sh(f"./check {pid} {tier}", cwd=HERE, env=dict(os.environ))
    lines = [l for l in out.splitlines() if l.startswith("VIOLATION") or "[" in l and l.startswith("  " + pid)]
    return rc, lines[:12], round(time.time() - t0, 1)


def evaluate(patch, demo, pid, tests):
    assert repo_clean(), "/repo has local modifications"
    res = {}
    if demo:
        rc, out = sh(f"/venv/bin/python {demo}", cwd=os.path.dirname(demo))
        res["demo_clean_exit"] = rc
    rc, out = sh(f"git -C /repo apply {patch}")
    if rc != 0:
        res["apply_error"] = out[-500:]
        return res
    try:
        if demo:
            rc, out = sh(f"/venv/bin/python {demo}", cwd=os.path.dirname(demo))
            res["demo_mutated_exit"] = rc
            res["demo_mutated_tail"] = out.strip().splitlines()[-2:]
        if tests:
            rc, out = sh(f"/venv/bin/python -m pytest -q -p no:cacheprovider {tests}", cwd="/repo")
            res["tests_tail"] = out.strip().splitlines()[-1:]
        rc, lines, wall = run_check(pid, "quick")
        res["quick"] = {"exit": rc, "wall_s": wall, "lines": lines}
        if rc == 0:
            rc, lines, wall = run_check(pid, "thorough")
            res["thorough"] = {"exit": rc, "wall_s": wall, "lines": lines}
    finally:
        revert()
    assert repo_clean()
    return res


def main():
    if sys.argv[1] == "import":
        src, pid, name = sys.argv[2], sys.argv[3], sys.argv[4]
        tests = ""
        if "--tests" in sys.argv:
            tests = sys.argv[sys.argv.index("--tests") + 1]
        dst = os.path.join(HERE, "seeded", name)
        os.makedirs(dst, exist_ok=True)
        for f in ("patch.diff", "demo.py", "notes.txt"):
            if os.path.exists(os.path.join(src, f)):
                shutil.copy(os.path.join(src, f), os.path.join(dst, f))
        demo = os.path.join(dst, "demo.py") if os.path.exists(os.path.join(dst, "demo.py")) else None
        res = evaluate(os.path.join(dst, "patch.diff"), demo, pid, tests)
        notes = open(os.path.join(dst, "notes.txt")).read() if os.path.exists(os.path.join(dst, "notes.txt")) else ""
        meta = {"property": pid, "name": name, "needs_to_manifest": notes.strip(), "origin": "independent sub-agent given only the property text and a scratch worktree",
                "ran": res, "tests": tests,
                "detected_by": ("quick" if res.get("quick", {}).get("exit") == 1 else "thorough" if res.get("thorough", {}).get("exit") == 1 else "MISSED")}
        json.dump(meta, open(os.path.join(dst, "meta.json"), "w"), indent=1)
        print(json.dumps(meta, indent=1)[:3000])
    elif sys.argv[1] == "rerun":
        names = sys.argv[2:] or sorted(os.listdir(os.path.join(HERE, "seeded")))
        for name in names:
            d = os.path.join(HERE, "seeded", name)
            mp = os.path.join(d, "meta.json")
            if not os.path.exists(mp):
                continue
            meta = json.load(open(mp))
            res = evaluate(os.path.join(d, "patch.diff"), None, meta["property"], "")
            det = "quick" if res.get("quick", {}).get("exit") == 1 else "thorough" if res.get("thorough", {}).get("exit") == 1 else "MISSED"
            meta["ran"].update({k: v for k, v in res.items() if k in ("quick", "thorough", "apply_error")})
            meta["detected_by"] = det
            json.dump(meta, open(mp, "w"), indent=1)
            print(f"{name}: {meta['property']} -> {det} {res.get('quick', {}).get('lines', [])[:2]} {res.get('apply_error', '')}")


if __name__ == "__main__":
    main()
