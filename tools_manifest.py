#!/usr/bin/env python3
"""Regenerate MANIFEST.json from the check modules that exist (development aid;
MANIFEST.json itself is committed)."""
import json
import os

HERE = os.path.dirname(os.path.abspath(__file__))

# per property: (technique, level text, level note)
TEXT = {
    "C01": ("Hypothesis generated modal systems; exact-recovery oracle against the known system (poles, damping, MAC) with conditioning guard",
            "Generated-input search: every generated noise-free system must be re-identified at order 2m to c*cond*eps; bounded by the generated sizes, no proof of absence.",
            "Truth computed by the harness from the drawn modal parameters; conditioning guard from the exact Hankel factors; numpy/scipy LAPACK trusted."),
    "C02": ("Hypothesis generated layouts/scale factors; reference model of the merged shape, means and population std; end-to-end SSI->PoSER",
            "Generated-input search against an explicit reference model of PoSER merging over sensor layouts and scale factors.",
            "Reference model written from the property statement; math.fsum statistics; complex-shape guard on |phi^T phi|."),
    "C03": ("exhaustive enumeration of reference/roving splits (<=6 channels) + Hypothesis multi-setup systems with exact-recovery oracle",
            "Split: exhaustive over every channel count <=6 and ordered reference subset. Identification: generated-input search with exact-recovery oracle.",
            "Truth from the drawn global system; conditioning guard from the exact per-setup Hankel matrices."),
    "C04": ("Hypothesis recordings/partitions; differential oracle SD_PreGER vs single-setup SD_est and a per-setup recomputation; metamorphic gain relation",
            "Generated-input search with differential and metamorphic oracles over partitions, estimators, segment lengths and overlaps.",
            "SD_est is the reference for the merged matrix (itself decided by C13); per-line condition-number guard."),
    "C05": ("Hypothesis rational matrix fractions; exact-recovery of denominator coefficients and of the pole set via an independent linearisation",
            "Generated-input search with exact-recovery oracle over polynomial matrices, orders, grids and basis signs.",
            "Roots obtained independently with scipy.linalg.eig on a different linearisation; conditioning guard from the true coefficients."),
    "C06": ("Hypothesis spectral sequences; reference model (independent SVD, argmax of s1/s2 in band, conjugated dominant vector)",
            "Generated-input search against a reference model of the FDD pick rule and of the stored decomposition.",
            "scipy.linalg.svd as independent decomposition; singular-value gap guard for vector comparisons."),
    "C07": ("Hypothesis analytic SDOF bells; accuracy oracle (MAC, 2.5 % fn, 15 % xi) and metamorphic scale relation",
            "Generated-input search over the quantified domain with the stated empirical accuracy bounds and an exact metamorphic relation.",
            "Analytic displacement PSD of a white-noise driven SDOF as truth; bounds as stated in the property."),
    "C08": ("Hypothesis data sets; metamorphic relations (gain, permutation, orthogonal mixing, time unit) on whole pole tables with rounding-sensitivity probe",
            "Generated-input search with metamorphic oracles across all algorithm classes.",
            "Tolerance from a measured rounding-sensitivity probe on the same data; multiset comparison of pole columns."),
    "C09": ("Hypothesis pole populations and criteria; reference re-computation of the unfiltered solution and of every criterion per cell",
            "Generated-input search: every retained and every removed pole is checked against independently computed criteria (sound, complete, consistent).",
            "Unfiltered solution recomputed from the library's own identification functions (decided by C01/C05); MPC/MPD recomputed by the harness."),
    "C10": ("Hypothesis pole tables; executable reference model of the label rule with tie and threshold guards",
            "Generated-input search against an executable model of the stability-label rule.",
            "Own MAC implementation; cells within 1e-9 of a tolerance not judged; nearest-frequency ties accepted in any resolution."),
    "C11": ("Hypothesis pole tables and requests; reference model of nearest-pole extraction and of minimal-order selection",
            "Generated-input search against an executable model of extraction (explicit order, per-mode orders, find_min).",
            "Relative-tolerance reading of the statement; poles placed well inside or well outside the band."),
    "C12": ("exhaustive impulse-basis enumeration of the bilinear map + Hypothesis random data against the definition and the projection identity",
            "Exhaustive over the unit-impulse basis for the stated small shapes; generated-input search beyond.",
            "Plain lagged cross-correlation sums as definition; cond(C_pp) guard for the projection identity."),
    "C13": ("Hypothesis records; reference Welch implementation, Parseval, bilinearity, gain/delay and sinusoid metamorphic/recovery oracles",
            "Generated-input search against an independent Welch estimator and analytic relations.",
            "Independent numpy FFT implementation of Welch's method; stated statistical tolerances for broadband tests."),
    "C14": ("model-based testing of operation histories: exhaustive enumeration of sequences over a fixed alphabet + Hypothesis-generated sequences, scipy pipeline as model",
            "All sequences up to the stated length over the stated alphabet are enumerated against an executable model; longer ones sampled.",
            "scipy.signal.decimate/detrend/butter+sosfiltfilt applied by the harness are the model."),
    "C15": ("model-based testing of add/run/mpe histories (enumerated + generated) against fresh isolated runs; exhaustive PoSER configuration enumeration",
            "Histories enumerated to the stated length against an executable model; PoSER configurations enumerated.",
            "Expected result = result of a fresh instance run alone on a copy of the bound data; exact (NaN-aware) comparison."),
    "C16": ("model-based testing of click histories on a head-less SelFromPlot (enumerated + generated) against a list-of-pairs model",
            "All action sequences to the stated length over a small table enumerated against the model; arbitrary tables sampled.",
            "tkinter and the Tk canvas are stubbed; real matplotlib events are dispatched on an Agg canvas."),
    "C17": ("Hypothesis Hankel matrices and covariance factors; differential oracle: analytic variance vs central finite differences of the identification",
            "Generated-input search with a finite-difference differential oracle, asserted only where two step sizes agree.",
            "Finite differences of SSI_fast->SSI_poles themselves; guards on singular-value gaps and eigenvalue separation."),
    "C18": ("Hypothesis generated mode shapes; algebraic laws (bounds, symmetry, scale invariance) and exact values on collinear shapes",
            "Generated-input search over shapes and scale factors against algebraic oracles.",
            "Independent MAC formula; stated absolute tolerances; anisotropy guard for MPD invariance."),
    "C19": ("Hypothesis table sets + enumerated single-fault corruptions; reference model of re-indexing, flattening, index shift, mapping and drawn coordinates",
            "Generated-input search against a reference model plus an enumerated corruption catalogue.",
            "DataFrames built as read_excel(index_col=0) would yield (openpyxl absent offline); Agg backend for drawn artists."),
    "C20": ("Hypothesis pole/label tables; reference model of the marker multisets read back from the Agg artists",
            "Generated-input search comparing drawn artist data with the expected multisets.",
            "matplotlib Agg artists inspected through their public data accessors."),
}


def main():
    props = [json.loads(l) for l in open(os.path.join(HERE, "properties.jsonl"))]
    checks, na = [], []
    reasons = {}
    rp = os.path.join(HERE, "not_applicable_reasons.json")
    if os.path.exists(rp):
        reasons = json.load(open(rp))
    for p in props:
        pid = p["id"]
        have = os.path.exists(os.path.join(HERE, "vp", "checks", pid.lower() + ".py"))
        if not have or pid in reasons:
            na.append({"property_id": pid, "reason": reasons.get(pid, "no check built yet in this tree: planned in DESIGN.md section 4, not claimed until its check exists and is quiet on the unchanged tree")})
            continue
        tech, text, note = TEXT[pid]
        checks.append({
            "property_id": pid,
            "quick_cmd": f"./check {pid} quick",
            "thorough_cmd": f"./check {pid} thorough",
            "evidence_file": f"evidence/{pid}.json",
            "replay_cmd_template": f"./check {pid} --replay {{path}}",
            "engine": "hypothesis+enumeration",
            "level_claimed": {"category": "exploration", "text": text, "design_ref": f"DESIGN.md section 4, {pid}"},
            "level_note": note,
            "technique": "property-based testing: " + tech,
        })
    man = {
        "version": 1,
        "setup_cmd": "/venv/bin/python -c 'import hypothesis' 2>/dev/null || /venv/bin/pip install --no-index --find-links /opt/veriftools/wheels hypothesis; /venv/bin/python -c 'import hypothesis, numpy, scipy, pandas, matplotlib; import sys; sys.path.insert(0, \"/repo/src\"); import pyoma2'",
        "hooks": {
            "guard": "DAGGHE_PYOMA2_VERIF",
            "enable": "no source hooks are needed: the checks import /repo/src directly (PYTHONPATH) and stub tkinter from the harness; ./check exports DAGGHE_PYOMA2_VERIF=1 for uniformity",
            "baseline_off_cmd": "cd /repo && env -u DAGGHE_PYOMA2_VERIF /venv/bin/python -m pytest -ra -q -p no:cacheprovider --timeout=900 --continue-on-collection-errors",
            "source_commits": [],
            "add_only": True,
        },
        "engines": [
            {"name": "hypothesis", "path": "vp/core.py", "serves_properties": [c["property_id"] for c in checks],
             "kind_free_text": "Hypothesis 6.168 strategies drive pure judge(case) functions; failures bucketed by oracle label, shrunk in the thorough tier; every case is a JSON replay file"},
            {"name": "enumeration", "path": "vp/core.py", "serves_properties": [c for c in ["C03", "C12", "C14", "C15", "C16", "C19"] if any(k["property_id"] == c for k in checks)],
             "kind_free_text": "exhaustive enumeration of small finite sub-domains (layouts, impulse bases, operation sequences), sharded over 16 processes"},
        ],
        "checks": checks,
        "not_applicable": na,
        "notes": "Runner: ./check <ID> <quick|thorough> | ./check <ID> --replay <file>. Exit 0 held, 1 VIOLATION, 2 harness error. Seeds from VERIF_SEED. Known findings: known_findings.json.",
    }
    json.dump(man, open(os.path.join(HERE, "MANIFEST.json"), "w"), indent=1)
    print("wrote MANIFEST.json:", len(checks), "checks,", len(na), "not applicable")


if __name__ == "__main__":
    main()
