#!/usr/bin/env python3
"""Run the repository's test suite (guard off) and compare with the 75 stable tests of /root/.vp/BASELINE.json."""
import json, os, subprocess, sys, tempfile, xml.etree.ElementTree as ET
b = json.load(open("/root/.vp/BASELINE.json"))
with tempfile.TemporaryDirectory() as d:
    x = os.path.join(d, "j.xml")
    env = {k: v for k, v in os.environ.items() if k != "DAGGHE_PYOMA2_VERIF"}
    subprocess.run(f"cd /repo && /venv/bin/python -m pytest -ra -q -p no:cacheprovider --timeout=900 --continue-on-collection-errors --junitxml={x}", shell=True, env=env, capture_output=True)
    passed = set()
    for tc in ET.parse(x).getroot().iter("testcase"):
        if not list(tc):
            passed.add(f"{tc.get('classname')}::{tc.get('name')}")
missing = [t for t in b["stable_pass"] if t not in passed]
print(f"stable baseline tests passing: {len(b['stable_pass']) - len(missing)}/{len(b['stable_pass'])}; passed in total {len(passed)}")
for t in missing:
    print("  NOT PASSING:", t)
sys.exit(1 if missing else 0)
