#!/usr/bin/env python3
"""Markdown rows for DESIGN.md section 10 from seeded/<prefix>*/meta.json (development aid)."""
import glob
import json
import re
import sys

prefix = sys.argv[1] if len(sys.argv) > 1 else "R3_"
for f in sorted(glob.glob(f"seeded/{prefix}*/meta.json")):
    m = json.load(open(f))
    notes = " ".join((m.get("needs_to_manifest") or "").split())
    notes = re.sub(r"^(Mutant|MUTANT|Seed)\s+\w+\s*(\([^)]*\))?\s*[-:–—.]*\s*", "", notes)
    notes = notes.replace("|", "/")[:170]
    ran = m.get("ran", {})
    det = m.get("detected_by", "?")
    lab = ""
    for tier in ("quick", "thorough"):
        for l in ran.get(tier, {}).get("lines") or []:
            mm = re.match(r"\s+(C\d\d)/(\S+) \[([^\]]+)\]", l)
            if mm and mm.group(3) != "exhaustive":
                lab = f"{mm.group(2)} / {mm.group(3)}"
                break
        if lab:
            break
    also = m.get("also") or ""
    print(f"| {m['name']} | {notes} | {det}{(' (' + also + ')') if also else ''} | {lab} |")
